// Solver-friendly models of the std containers used by renet / renetcode.
//
// BTreeMap / HashMap  = dense, key-sorted slot array  [Option<(K,V)>; CAP] + len
// BTreeSet            = map to ()
// VecDeque            = dense array [Option<T>; QCAP] + len (front = index 0)
//
// Only the API subset the crates use is provided; anything else is a compile error in the
// staged copy (=> the check ends inconclusive, never green).  Inserting into a full container
// is OUTSIDE THE CLAIM: the path is cut with kani::assume(false) (a panic in native builds).
//
// CAP / QCAP are written by tools/stage.py in front of this file.

pub mod collections {
    use super::{CAP, QCAP};

    #[inline(never)]
    fn cap_exceeded() -> ! {
        #[cfg(kani)]
        {
            unsafe {
                super::CAP_HIT = true;
            }
            kani::assume(false);
        }
        panic!("verif model capacity exceeded");
    }

    pub struct BTreeMap<K, V> {
        pub slots: [Option<(K, V)>; CAP],
        pub len: usize,
    }
    pub type HashMap<K, V> = BTreeMap<K, V>;

    impl<K, V> std::fmt::Debug for BTreeMap<K, V> {
        fn fmt(&self, _f: &mut std::fmt::Formatter) -> std::fmt::Result {
            Ok(())
        }
    }

    impl<K: Ord + Copy, V: Clone> Clone for BTreeMap<K, V> {
        fn clone(&self) -> Self {
            let mut m = BTreeMap::new();
            let mut i = 0;
            while i < CAP {
                if let Some((k, v)) = &self.slots[i] {
                    m.slots[i] = Some((*k, v.clone()));
                }
                i += 1;
            }
            m.len = self.len;
            m
        }
    }

    impl<K: Ord + Copy, V> Default for BTreeMap<K, V> {
        fn default() -> Self {
            Self::new()
        }
    }

    impl<K: Ord + Copy, V> BTreeMap<K, V> {
        pub fn new() -> Self {
            BTreeMap {
                slots: std::array::from_fn(|_| None),
                len: 0,
            }
        }
        fn find(&self, k: &K) -> Option<usize> {
            let mut i = 0;
            while i < CAP {
                if i < self.len {
                    if let Some((kk, _)) = &self.slots[i] {
                        if kk == k {
                            return Some(i);
                        }
                    }
                }
                i += 1;
            }
            None
        }
        pub fn len(&self) -> usize {
            self.len
        }
        pub fn is_empty(&self) -> bool {
            self.len == 0
        }
        pub fn contains_key(&self, k: &K) -> bool {
            self.find(k).is_some()
        }
        pub fn get(&self, k: &K) -> Option<&V> {
            match self.find(k) {
                Some(i) => self.slots[i].as_ref().map(|(_, v)| v),
                None => None,
            }
        }
        pub fn get_mut(&mut self, k: &K) -> Option<&mut V> {
            match self.find(k) {
                Some(i) => self.slots[i].as_mut().map(|(_, v)| v),
                None => None,
            }
        }
        fn insert_new(&mut self, k: K, v: V) -> usize {
            if self.len >= CAP {
                cap_exceeded();
            }
            // position = number of keys smaller than k
            let mut pos = 0;
            let mut i = 0;
            while i < CAP {
                if i < self.len {
                    if let Some((kk, _)) = &self.slots[i] {
                        if *kk < k {
                            pos = i + 1;
                        }
                    }
                }
                i += 1;
            }
            let mut j = CAP - 1;
            while j > 0 {
                if j > pos && j <= self.len {
                    self.slots[j] = self.slots[j - 1].take();
                }
                j -= 1;
            }
            self.slots[pos] = Some((k, v));
            self.len += 1;
            pos
        }
        pub fn insert(&mut self, k: K, v: V) -> Option<V> {
            match self.find(&k) {
                Some(i) => {
                    let old = self.slots[i].take();
                    self.slots[i] = Some((k, v));
                    old.map(|(_, v)| v)
                }
                None => {
                    self.insert_new(k, v);
                    None
                }
            }
        }
        fn remove_at(&mut self, pos: usize) -> Option<(K, V)> {
            let out = self.slots[pos].take();
            let mut j = 0;
            while j + 1 < CAP {
                if j >= pos && j + 1 < self.len {
                    self.slots[j] = self.slots[j + 1].take();
                }
                j += 1;
            }
            self.len -= 1;
            out
        }
        pub fn remove(&mut self, k: &K) -> Option<V> {
            match self.find(k) {
                Some(i) => self.remove_at(i).map(|(_, v)| v),
                None => None,
            }
        }
        pub fn pop_first(&mut self) -> Option<(K, V)> {
            if self.len == 0 {
                None
            } else {
                self.remove_at(0)
            }
        }
        pub fn iter_mut(&mut self) -> impl Iterator<Item = (&K, &mut V)> {
            self.slots.iter_mut().filter_map(|s| s.as_mut().map(|(k, v)| (&*k, v)))
        }
        pub fn values_mut(&mut self) -> impl Iterator<Item = &mut V> {
            self.iter_mut().map(|(_, v)| v)
        }
        pub fn iter(&self) -> impl Iterator<Item = (&K, &V)> {
            self.slots.iter().filter_map(|s| s.as_ref().map(|(k, v)| (k, v)))
        }
        pub fn values(&self) -> impl Iterator<Item = &V> {
            self.iter().map(|(_, v)| v)
        }
        pub fn keys(&self) -> impl Iterator<Item = &K> {
            self.iter().map(|(k, _)| k)
        }
        pub fn first_key_value(&self) -> Option<(&K, &V)> {
            if self.len == 0 {
                None
            } else {
                self.slots[0].as_ref().map(|(k, v)| (k, v))
            }
        }
        pub fn last_key_value(&self) -> Option<(&K, &V)> {
            if self.len == 0 {
                None
            } else {
                self.slots[self.len - 1].as_ref().map(|(k, v)| (k, v))
            }
        }
        pub fn clear(&mut self) {
            let mut i = 0;
            while i < CAP {
                self.slots[i] = None;
                i += 1;
            }
            self.len = 0;
        }
        pub fn range(&self, r: std::ops::Range<K>) -> impl Iterator<Item = (&K, &V)> {
            // std: "range start is greater than range end in BTreeMap"
            assert!(r.start <= r.end, "range start is greater than range end in BTreeMap");
            self.iter().filter(move |(k, _)| r.start <= **k && **k < r.end)
        }
        pub fn retain<F: FnMut(&K, &mut V) -> bool>(&mut self, mut f: F) {
            // evaluate the predicate slot by slot, then compact
            let mut i = 0;
            while i < CAP {
                let keep = match self.slots[i].as_mut() {
                    Some((k, v)) => f(k, v),
                    None => true,
                };
                if !keep {
                    self.slots[i] = None;
                }
                i += 1;
            }
            let mut w = 0;
            let mut r = 0;
            while r < CAP {
                if self.slots[r].is_some() {
                    if w != r {
                        self.slots[w] = self.slots[r].take();
                    }
                    w += 1;
                }
                r += 1;
            }
            self.len = w;
        }
        pub fn entry(&mut self, k: K) -> Entry<'_, K, V> {
            match self.find(&k) {
                Some(i) => Entry::Occupied(OccupiedEntry { map: self, idx: i }),
                None => Entry::Vacant(VacantEntry { map: self, key: k }),
            }
        }
    }

    #[repr(u8)]
    pub enum Entry<'a, K, V> {
        Occupied(OccupiedEntry<'a, K, V>),
        Vacant(VacantEntry<'a, K, V>),
    }
    pub struct OccupiedEntry<'a, K, V> {
        map: &'a mut BTreeMap<K, V>,
        idx: usize,
    }
    pub struct VacantEntry<'a, K, V> {
        map: &'a mut BTreeMap<K, V>,
        key: K,
    }
    impl<'a, K: Ord + Copy, V> OccupiedEntry<'a, K, V> {
        pub fn get(&self) -> &V {
            &self.map.slots[self.idx].as_ref().unwrap().1
        }
        pub fn get_mut(&mut self) -> &mut V {
            &mut self.map.slots[self.idx].as_mut().unwrap().1
        }
        pub fn into_mut(self) -> &'a mut V {
            &mut self.map.slots[self.idx].as_mut().unwrap().1
        }
        pub fn insert(&mut self, v: V) -> V {
            std::mem::replace(&mut self.map.slots[self.idx].as_mut().unwrap().1, v)
        }
        pub fn remove(self) -> V {
            self.map.remove_at(self.idx).unwrap().1
        }
    }
    impl<'a, K: Ord + Copy, V> VacantEntry<'a, K, V> {
        pub fn insert(self, v: V) -> &'a mut V {
            let i = self.map.insert_new(self.key, v);
            &mut self.map.slots[i].as_mut().unwrap().1
        }
    }
    impl<'a, K: Ord + Copy, V> Entry<'a, K, V> {
        pub fn or_insert(self, v: V) -> &'a mut V {
            self.or_insert_with(|| v)
        }
        pub fn or_default(self) -> &'a mut V
        where
            V: Default,
        {
            self.or_insert_with(V::default)
        }
        pub fn key(&self) -> &K {
            match self {
                Entry::Occupied(o) => &o.map.slots[o.idx].as_ref().unwrap().0,
                Entry::Vacant(v) => &v.key,
            }
        }
        pub fn or_insert_with<F: FnOnce() -> V>(self, f: F) -> &'a mut V {
            match self {
                Entry::Occupied(o) => &mut o.map.slots[o.idx].as_mut().unwrap().1,
                Entry::Vacant(v) => v.insert(f()),
            }
        }
    }
    pub mod btree_map {
        pub use super::Entry;
    }
    pub mod hash_map {
        pub use super::Entry;
    }

    pub struct BTreeSet<K> {
        pub map: BTreeMap<K, ()>,
    }
    impl<K> std::fmt::Debug for BTreeSet<K> {
        fn fmt(&self, _f: &mut std::fmt::Formatter) -> std::fmt::Result {
            Ok(())
        }
    }
    impl<K: Ord + Copy> BTreeSet<K> {
        pub fn new() -> Self {
            BTreeSet { map: BTreeMap::new() }
        }
        pub fn len(&self) -> usize {
            self.map.len
        }
        pub fn is_empty(&self) -> bool {
            self.map.len == 0
        }
        pub fn contains(&self, k: &K) -> bool {
            self.map.contains_key(k)
        }
        pub fn insert(&mut self, k: K) -> bool {
            self.map.insert(k, ()).is_none()
        }
        pub fn remove(&mut self, k: &K) -> bool {
            self.map.remove(k).is_some()
        }
    }

    pub struct VecDeque<T> {
        pub slots: [Option<T>; QCAP],
        pub len: usize,
    }
    impl<T> std::fmt::Debug for VecDeque<T> {
        fn fmt(&self, _f: &mut std::fmt::Formatter) -> std::fmt::Result {
            Ok(())
        }
    }
    impl<T> VecDeque<T> {
        pub fn new() -> Self {
            VecDeque {
                slots: std::array::from_fn(|_| None),
                len: 0,
            }
        }
        pub fn len(&self) -> usize {
            self.len
        }
        pub fn is_empty(&self) -> bool {
            self.len == 0
        }
        pub fn push_back(&mut self, t: T) {
            if self.len >= QCAP {
                cap_exceeded();
            }
            self.slots[self.len] = Some(t);
            self.len += 1;
        }
        pub fn pop_front(&mut self) -> Option<T> {
            if self.len == 0 {
                return None;
            }
            let out = self.slots[0].take();
            let mut j = 0;
            while j + 1 < QCAP {
                if j + 1 < self.len {
                    self.slots[j] = self.slots[j + 1].take();
                }
                j += 1;
            }
            self.len -= 1;
            out
        }
        pub fn front(&self) -> Option<&T> {
            if self.len == 0 {
                None
            } else {
                self.slots[0].as_ref()
            }
        }
        pub fn iter(&self) -> impl Iterator<Item = &T> {
            self.slots.iter().filter_map(|s| s.as_ref())
        }
    }

    // ---- pre-state constructors used by the harnesses (keys must be strictly ascending) ----
    pub fn map_from<K: Ord + Copy, V, const N: usize>(entries: [(K, V); N]) -> BTreeMap<K, V> {
        let mut m = BTreeMap::new();
        let mut i = 0;
        for e in entries {
            if i >= CAP {
                cap_exceeded();
            }
            m.slots[i] = Some(e);
            i += 1;
        }
        m.len = N;
        m
    }
    pub fn set_from<K: Ord + Copy, const N: usize>(keys: [K; N]) -> BTreeSet<K> {
        let mut m = BTreeMap::new();
        let mut i = 0;
        for k in keys {
            if i >= CAP {
                cap_exceeded();
            }
            m.slots[i] = Some((k, ()));
            i += 1;
        }
        m.len = N;
        BTreeSet { map: m }
    }
    pub fn deque_from<T, const N: usize>(items: [T; N]) -> VecDeque<T> {
        let mut d = VecDeque::new();
        let mut i = 0;
        for t in items {
            if i >= QCAP {
                cap_exceeded();
            }
            d.slots[i] = Some(t);
            i += 1;
        }
        d.len = N;
        d
    }
}
