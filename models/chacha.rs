// Model of the chacha20poly1305 crate API used by renetcode/src/crypto.rs.
//
// crypto.rs itself stays the REAL code (nonce layout, tag split, key conversion); only the
// primitive behind it is replaced:
//   * the buffer is left unchanged (identity "cipher": ciphertext == plaintext, tag == 0..0) -
//     for an attacker-controlled (fully symbolic) input this is without loss of generality,
//   * every call is recorded (kind, key, nonce, aad, length, one witnessed byte) in ghost statics,
//   * the verdict of `decrypt` is chosen by DEC_MODE:
//       0 = nondeterministic (over-approximates every attacker),
//       1 = always Ok, 2 = always Err,
//       3 = ideal AEAD: Ok iff (kind,key,nonce,aad,len,witness byte) equals one of the SEALED tuples.
pub mod chacha {
    #[derive(Debug, Clone, Copy, PartialEq, Eq)]
    pub struct Error;
    impl std::fmt::Display for Error {
        fn fmt(&self, f: &mut std::fmt::Formatter<'_>) -> std::fmt::Result {
            f.write_str("aead::Error")
        }
    }
    impl std::error::Error for Error {}

    #[repr(transparent)]
    #[derive(Clone, Copy, PartialEq, Eq, Debug)]
    pub struct Arr<const N: usize>(pub [u8; N]);
    impl<const N: usize> Arr<N> {
        pub fn from_slice(s: &[u8]) -> &Self {
            assert!(s.len() == N, "GenericArray::from_slice: length mismatch");
            unsafe { &*(s.as_ptr() as *const Arr<N>) }
        }
    }
    impl<const N: usize> From<[u8; N]> for Arr<N> {
        fn from(a: [u8; N]) -> Self {
            Arr(a)
        }
    }
    impl<const N: usize> std::ops::Deref for Arr<N> {
        type Target = [u8];
        fn deref(&self) -> &[u8] {
            &self.0
        }
    }
    pub type Key = Arr<32>;
    pub type Nonce = Arr<12>;
    pub type XNonce = Arr<24>;
    pub type Tag = Arr<16>;

    pub const REC_CAP: usize = 4;
    pub const AAD_CAP: usize = 32;

    #[derive(Clone, Copy)]
    pub struct AeadCall {
        pub decrypt: bool,
        pub xchacha: bool,
        pub key: [u8; 32],
        pub nonce: [u8; 24],
        pub aad_len: usize,
        pub aad: [u8; AAD_CAP],
        pub len: usize,
        pub wbyte: u8,
        pub tag: [u8; 16],
        pub ok: bool,
    }
    pub const NO_CALL: AeadCall = AeadCall {
        decrypt: false,
        xchacha: false,
        key: [0; 32],
        nonce: [0; 24],
        aad_len: 0,
        aad: [0; AAD_CAP],
        len: 0,
        wbyte: 0,
        tag: [0; 16],
        ok: false,
    };
    pub static mut CALLS: [AeadCall; REC_CAP] = [NO_CALL; REC_CAP];
    pub static mut NCALLS: usize = 0;
    /// see file header
    pub static mut DEC_MODE: u8 = 0;
    /// witness position inside the sealed/opened buffer whose byte is recorded
    pub static mut WIDX: usize = 0;
    /// tuples "sealed by an honest party" for DEC_MODE 3
    pub static mut SEALED: [AeadCall; 2] = [NO_CALL; 2];
    pub static mut NSEALED: usize = 0;

    fn nondet_bool() -> bool {
        #[cfg(kani)]
        {
            kani::any()
        }
        #[cfg(not(kani))]
        {
            true
        }
    }

    fn record(decrypt: bool, xchacha: bool, key: &[u8; 32], nonce: &[u8], aad: &[u8], buffer: &[u8]) -> AeadCall {
        let mut c = NO_CALL;
        c.decrypt = decrypt;
        c.xchacha = xchacha;
        c.key = *key;
        let mut i = 0;
        while i < 24 {
            if i < nonce.len() {
                c.nonce[i] = nonce[i];
            }
            i += 1;
        }
        assert!(aad.len() <= AAD_CAP, "verif model: aad longer than AAD_CAP");
        c.aad_len = aad.len();
        let mut i = 0;
        while i < AAD_CAP {
            if i < aad.len() {
                c.aad[i] = aad[i];
            }
            i += 1;
        }
        c.len = buffer.len();
        unsafe {
            if WIDX < buffer.len() {
                c.wbyte = buffer[WIDX];
            }
        }
        c
    }

    fn same_tuple(a: &AeadCall, b: &AeadCall) -> bool {
        a.xchacha == b.xchacha && a.key == b.key && a.nonce == b.nonce && a.aad_len == b.aad_len && a.aad == b.aad && a.len == b.len && a.wbyte == b.wbyte
    }

    fn push(c: AeadCall) {
        unsafe {
            if NCALLS < REC_CAP {
                CALLS[NCALLS] = c;
            }
            NCALLS += 1;
        }
    }

    fn open(xchacha: bool, key: &[u8; 32], nonce: &[u8], aad: &[u8], buffer: &mut [u8], tag: &Tag) -> Result<(), Error> {
        let mut c = record(true, xchacha, key, nonce, aad, buffer);
        c.tag = tag.0;
        let ok = unsafe {
            match DEC_MODE {
                1 => true,
                2 => false,
                3 => {
                    let mut m = false;
                    let mut i = 0;
                    while i < 2 {
                        if i < NSEALED && same_tuple(&SEALED[i], &c) {
                            m = true;
                        }
                        i += 1;
                    }
                    m
                }
                _ => nondet_bool(),
            }
        };
        c.ok = ok;
        push(c);
        if ok {
            Ok(())
        } else {
            Err(Error)
        }
    }

    fn seal(xchacha: bool, key: &[u8; 32], nonce: &[u8], aad: &[u8], buffer: &mut [u8]) -> Result<Tag, Error> {
        let mut c = record(false, xchacha, key, nonce, aad, buffer);
        c.ok = true;
        push(c);
        Ok(Arr([0u8; 16]))
    }

    pub trait KeyInit: Sized {
        fn new(key: &Key) -> Self;
    }
    pub trait AeadInPlace {
        type NonceT;
        fn decrypt_in_place_detached(&self, nonce: &Self::NonceT, aad: &[u8], buffer: &mut [u8], tag: &Tag) -> Result<(), Error>;
        fn encrypt_in_place_detached(&self, nonce: &Self::NonceT, aad: &[u8], buffer: &mut [u8]) -> Result<Tag, Error>;
    }

    pub struct ChaCha20Poly1305 {
        key: [u8; 32],
    }
    pub struct XChaCha20Poly1305 {
        key: [u8; 32],
    }
    impl KeyInit for ChaCha20Poly1305 {
        fn new(key: &Key) -> Self {
            ChaCha20Poly1305 { key: key.0 }
        }
    }
    impl KeyInit for XChaCha20Poly1305 {
        fn new(key: &Key) -> Self {
            XChaCha20Poly1305 { key: key.0 }
        }
    }
    impl AeadInPlace for ChaCha20Poly1305 {
        type NonceT = Nonce;
        fn decrypt_in_place_detached(&self, nonce: &Nonce, aad: &[u8], buffer: &mut [u8], tag: &Tag) -> Result<(), Error> {
            open(false, &self.key, &nonce.0, aad, buffer, tag)
        }
        fn encrypt_in_place_detached(&self, nonce: &Nonce, aad: &[u8], buffer: &mut [u8]) -> Result<Tag, Error> {
            seal(false, &self.key, &nonce.0, aad, buffer)
        }
    }
    impl AeadInPlace for XChaCha20Poly1305 {
        type NonceT = XNonce;
        fn decrypt_in_place_detached(&self, nonce: &XNonce, aad: &[u8], buffer: &mut [u8], tag: &Tag) -> Result<(), Error> {
            open(true, &self.key, &nonce.0, aad, buffer, tag)
        }
        fn encrypt_in_place_detached(&self, nonce: &XNonce, aad: &[u8], buffer: &mut [u8]) -> Result<Tag, Error> {
            seal(true, &self.key, &nonce.0, aad, buffer)
        }
    }

    pub mod aead {
        pub use super::Error;
        pub mod rand_core {
            pub trait RngCore {
                fn fill_bytes(&mut self, dest: &mut [u8]);
            }
        }
        /// OS randomness = arbitrary bytes
        pub struct OsRng;
        impl rand_core::RngCore for OsRng {
            fn fill_bytes(&mut self, dest: &mut [u8]) {
                for b in dest.iter_mut() {
                    #[cfg(kani)]
                    {
                        *b = kani::any();
                    }
                    #[cfg(not(kani))]
                    {
                        *b = 0x5a;
                    }
                }
            }
        }
    }
}
