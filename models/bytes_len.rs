// LenBytes: model of bytes::Bytes that keeps length and identity (blob, off) but no content.
// Deref yields a zero-filled static slice of the right length.  Sound for lemmas that depend only
// on lengths / identity; the channel code never branches on payload content.
pub const BYTES_MODEL: &str = "len";
static ZEROS: [u8; 4096] = [0; 4096];

#[derive(Clone, PartialEq, Eq, Default)]
pub struct Bytes {
    pub len: usize,
    pub blob: u32,
    pub off: usize,
}

impl std::fmt::Debug for Bytes {
    fn fmt(&self, _f: &mut std::fmt::Formatter) -> std::fmt::Result {
        Ok(())
    }
}

impl Bytes {
    pub fn new() -> Self {
        Bytes { len: 0, blob: 0, off: 0 }
    }
    pub fn len(&self) -> usize {
        self.len
    }
    pub fn is_empty(&self) -> bool {
        self.len == 0
    }
    pub fn slice(&self, r: std::ops::Range<usize>) -> Bytes {
        assert!(r.start <= r.end && r.end <= self.len);
        Bytes {
            len: r.end - r.start,
            blob: self.blob,
            off: self.off + r.start,
        }
    }
    pub fn to_vec(&self) -> Vec<u8> {
        vec![0u8; self.len]
    }
}
impl std::ops::Deref for Bytes {
    type Target = [u8];
    fn deref(&self) -> &[u8] {
        &ZEROS[..self.len]
    }
}
impl AsRef<[u8]> for Bytes {
    fn as_ref(&self) -> &[u8] {
        &ZEROS[..self.len]
    }
}
impl From<Vec<u8>> for Bytes {
    fn from(v: Vec<u8>) -> Self {
        Bytes { len: v.len(), blob: 0, off: 0 }
    }
}
impl From<&'static [u8]> for Bytes {
    fn from(v: &'static [u8]) -> Self {
        Bytes { len: v.len(), blob: 0, off: 0 }
    }
}
/// harness constructor: a message of `len` bytes with identity `blob`
pub fn vbytes(len: usize, blob: u32) -> Bytes {
    Bytes { len, blob, off: 0 }
}
/// is `b` exactly bytes [off, off+len) of the message with identity `blob`?
pub fn is_window(b: &Bytes, blob: u32, off: usize, len: usize) -> bool {
    b.blob == blob && b.off == off && b.len == len
}
