// Ghost state of the CONTRACT variant of the netcode-server step lemmas (variant key "contracts").
//
// In that variant tools/stage.py re-points the calls that renetcode/src/server.rs makes to
//   Packet::decode / Packet::encode / Packet::generate_challenge / ChallengeToken::decode / PrivateConnectToken::decode
// at the functions `verif_*` defined in harness/renetcode/{packet,token}.rs.  Each of them implements the CONTRACT that
// the packet / token lemmas establish for the real function at the real sizes (dec_total, dec_binding, dec_window_order,
// enc_len_*, rt_nc_*, rt_challenge_token) under the ideal-AEAD assumption:
//   * decode: a request (type 0) is returned only from a datagram long enough to hold one and is never authenticated;
//     every other kind is returned only if the datagram is THE authentic one in flight (sealed under the key that is
//     presented, for the protocol id that is presented, with the kind announced by the prefix byte), the replay window
//     is consulted before and advanced after authentication for the protected kinds (real ReplayProtection code);
//   * encode: length = 1 + sequence bytes + body + 16, fails iff the buffer is shorter, seals under (key, sequence) -
//     recorded here so that the lemmas can state nonce discipline;
//   * challenge / connect tokens open only if they are the token that was sealed under the presented key / sequence /
//     protocol id / expiry / xnonce with exactly these bytes.
// Everything here is plain Rust (no kani::any), so Kani's concrete playback replays counterexamples natively.
pub mod contracts {
    use std::net::SocketAddr;

    #[derive(Clone, Copy)]
    pub struct EncCall {
        pub kind: u8,
        pub sequence: u64,
        pub key: [u8; 32],
        pub protocol_id: u64,
        pub a: u64,
        pub b: u64,
        pub len: usize,
    }
    pub const NO_ENC: EncCall = EncCall { kind: 255, sequence: 0, key: [0; 32], protocol_id: 0, a: 0, b: 0, len: 0 };
    pub static mut ENC: [EncCall; 2] = [NO_ENC; 2];
    pub static mut NENC: usize = 0;

    // ---- decode: what was presented
    pub static mut NDEC: usize = 0;
    pub static mut DEC_HAD_KEY: bool = false;
    pub static mut DEC_KEY: [u8; 32] = [0; 32];
    pub static mut DEC_HAD_WINDOW: bool = false;
    pub static mut DEC_AUTHENTICATED: bool = false;
    // ---- decode: the single authentic datagram in flight (ideal AEAD)
    pub static mut AUTH: bool = false;
    pub static mut AUTH_KEY: [u8; 32] = [0; 32];
    pub static mut AUTH_PID: u64 = 0;
    pub static mut AUTH_KIND: u8 = 0;
    pub static mut AUTH_SEQ: u64 = 0;
    pub static mut FORGED_SEQ: u64 = 0;
    pub static mut AUTH_A: u64 = 0;
    pub static mut AUTH_B: u64 = 0;
    pub static mut AUTH_TOKEN: [u8; crate::NETCODE_CHALLENGE_TOKEN_BYTES] = [0; crate::NETCODE_CHALLENGE_TOKEN_BYTES];
    // ---- decode: the (unauthenticated, attacker chosen) fields of a connection request
    pub static mut REQ_VERSION: [u8; 13] = [0; 13];
    pub static mut REQ_PID: u64 = 0;
    pub static mut REQ_EXPIRE: u64 = 0;
    pub static mut REQ_XNONCE: [u8; crate::NETCODE_CONNECT_TOKEN_XNONCE_BYTES] = [0; crate::NETCODE_CONNECT_TOKEN_XNONCE_BYTES];
    pub static mut REQ_DATA: [u8; crate::NETCODE_CONNECT_TOKEN_PRIVATE_BYTES] = [0; crate::NETCODE_CONNECT_TOKEN_PRIVATE_BYTES];
    pub static mut REQ_PARSES: bool = true;

    // ---- challenge tokens: the one challenge that was sealed by whoever holds CHAL_KEY
    pub static mut CHAL: bool = false;
    pub static mut CHAL_KEY: [u8; 32] = [0; 32];
    pub static mut CHAL_SEQ: u64 = 0;
    pub static mut CHAL_DATA: [u8; crate::NETCODE_CHALLENGE_TOKEN_BYTES] = [0; crate::NETCODE_CHALLENGE_TOKEN_BYTES];
    pub static mut CHAL_ID: u64 = 0;
    pub static mut CHAL_UD: [u8; crate::NETCODE_USER_DATA_BYTES] = [0; crate::NETCODE_USER_DATA_BYTES];
    pub static mut NCHAL_DEC: usize = 0;
    // generate_challenge: what the server sealed
    pub static mut NGEN: usize = 0;
    pub static mut GEN_ID: u64 = 0;
    pub static mut GEN_UD: [u8; crate::NETCODE_USER_DATA_BYTES] = [0; crate::NETCODE_USER_DATA_BYTES];
    pub static mut GEN_SEQ: u64 = 0;
    pub static mut GEN_KEY: [u8; 32] = [0; 32];

    // ---- connect tokens: the one private token sealed by whoever holds TOK_KEY
    pub static mut TOK: bool = false;
    pub static mut TOK_KEY: [u8; 32] = [0; 32];
    pub static mut TOK_PID: u64 = 0;
    pub static mut TOK_EXPIRE: u64 = 0;
    pub static mut TOK_XNONCE: [u8; crate::NETCODE_CONNECT_TOKEN_XNONCE_BYTES] = [0; crate::NETCODE_CONNECT_TOKEN_XNONCE_BYTES];
    pub static mut TOK_DATA: [u8; crate::NETCODE_CONNECT_TOKEN_PRIVATE_BYTES] = [0; crate::NETCODE_CONNECT_TOKEN_PRIVATE_BYTES];
    pub static mut TOK_ID: u64 = 0;
    pub static mut TOK_TIMEOUT: i32 = 0;
    pub static mut TOK_ADDR0: Option<SocketAddr> = None;
    pub static mut TOK_ADDR1: Option<SocketAddr> = None;
    pub static mut TOK_C2S: [u8; 32] = [0; 32];
    pub static mut TOK_S2C: [u8; 32] = [0; 32];
    pub static mut TOK_UD: [u8; crate::NETCODE_USER_DATA_BYTES] = [0; crate::NETCODE_USER_DATA_BYTES];
    pub static mut NTOK_DEC: usize = 0;
    pub static mut TOK_OPENED: bool = false;

    pub fn reset() {
        unsafe {
            NENC = 0;
            NDEC = 0;
            NCHAL_DEC = 0;
            NGEN = 0;
            NTOK_DEC = 0;
            AUTH = false;
            CHAL = false;
            TOK = false;
            TOK_OPENED = false;
            DEC_AUTHENTICATED = false;
            REQ_PARSES = true;
        }
    }

    pub fn sequence_bytes(sequence: u64) -> usize {
        if sequence >> 56 != 0 {
            8
        } else if sequence >> 48 != 0 {
            7
        } else if sequence >> 40 != 0 {
            6
        } else if sequence >> 32 != 0 {
            5
        } else if sequence >> 24 != 0 {
            4
        } else if sequence >> 16 != 0 {
            3
        } else if sequence >> 8 != 0 {
            2
        } else {
            1
        }
    }
}
