// VecBytes: faithful-content model of bytes::Bytes (a Vec<u8> newtype; clone = deep copy).
pub const BYTES_MODEL: &str = "vec";

#[derive(Clone, PartialEq, Eq, Default)]
pub struct Bytes {
    pub v: Vec<u8>,
}

impl std::fmt::Debug for Bytes {
    fn fmt(&self, _f: &mut std::fmt::Formatter) -> std::fmt::Result {
        Ok(())
    }
}

impl Bytes {
    pub fn new() -> Self {
        Bytes { v: Vec::new() }
    }
    pub fn len(&self) -> usize {
        self.v.len()
    }
    pub fn is_empty(&self) -> bool {
        self.v.is_empty()
    }
    pub fn slice(&self, r: std::ops::Range<usize>) -> Bytes {
        assert!(r.start <= r.end && r.end <= self.v.len());
        Bytes { v: self.v[r].to_vec() }
    }
}
impl std::ops::Deref for Bytes {
    type Target = [u8];
    fn deref(&self) -> &[u8] {
        &self.v
    }
}
impl AsRef<[u8]> for Bytes {
    fn as_ref(&self) -> &[u8] {
        &self.v
    }
}
impl From<Vec<u8>> for Bytes {
    fn from(v: Vec<u8>) -> Self {
        Bytes { v }
    }
}
impl From<&'static [u8]> for Bytes {
    fn from(v: &'static [u8]) -> Self {
        Bytes { v: v.to_vec() }
    }
}
/// harness constructors shared with the LenBytes model (only so that every harness file compiles in
/// both variants; the LenBytes lemmas are never run on this model)
pub fn vbytes(len: usize, blob: u32) -> Bytes {
    Bytes { v: vec![blob as u8; len] }
}
pub fn is_window(b: &Bytes, _blob: u32, _off: usize, len: usize) -> bool {
    b.v.len() == len
}
