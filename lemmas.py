"""Registry of proof obligations: which Kani harness decides which part of which property."""

LEMMAS = []
PROPERTY_META = {}


def L(name, crate, file, props, tier="quick", variant=None, timeout=300, mem_gb=12, expect="pass", heavy=False, **kw):
    d = dict(name=name, crate=crate, file=file, props=list(props), tier=tier, variant=dict(variant or {}), timeout=timeout,
             mem_gb=mem_gb, expect=expect, heavy=heavy)
    d.update(kw)
    LEMMAS.append(d)
    return d


def lemmas_for(prop, tier):
    out = []
    for l in LEMMAS:
        if prop not in l["props"]:
            continue
        if tier == "quick" and l["tier"] != "quick":
            continue
        out.append(l)
    return out


# --------------------------------------------------------------------------------------------
# renetcode: replay window  (C04, C07)
RP = dict(crate="renetcode", file="replay_protection.rs")
L("rp_total", props=["C04", "C07"], functions="ReplayProtection::{already_received, advance_sequence}",
  claim="both operations return normally for every u64 sequence and every window contents", bound="none (all 2^64 sequences, all window contents)", **RP)
L("rp_once", props=["C04"], functions="ReplayProtection::{already_received, advance_sequence}", timeout=600,
  claim="inductive step: a sequence that is marked received stays rejected after any admitted advance", bound="sequences < 2^63; one step from an arbitrary window satisfying Inv_RP", **RP)
L("rp_complete", props=["C04"], functions="ReplayProtection::already_received",
  claim="a never-accepted sequence less than 256 behind the newest is admitted", bound="sequences < 2^63", **RP)
L("rp_old", props=["C04"], functions="ReplayProtection::already_received", claim="sequences 256 or more behind are rejected", bound="sequences < 2^63", **RP)
L("rp_init", props=["C04"], functions="ReplayProtection::new", claim="constructor state satisfies Inv_RP and admits everything", bound="none", **RP)
L("rp_witness", props=["C04", "C07"], expect="fail", functions="-", claim="vacuity witness", **RP)
