"""Registry of proof obligations: which Kani harness decides which part of which property."""

LEMMAS = []
PROPERTY_META = {}


def L(name, crate, file, props, tier="quick", variant=None, timeout=300, mem_gb=12, expect="pass", heavy=False, **kw):
    timeout = max(timeout, 800)  # a slow box must not turn a passing lemma into a timeout; the whole quick check is budgeted separately
    d = dict(name=name, crate=crate, file=file, props=list(props), tier=tier, variant=dict(variant or {}), timeout=timeout,
             mem_gb=mem_gb, expect=expect, heavy=heavy)
    d.update(kw)
    LEMMAS.append(d)
    return d


def lemmas_for(prop, tier):
    out = []
    for l in LEMMAS:
        if prop != "ALL" and prop not in l["props"]:
            continue
        if tier == "quick" and (l["tier"] != "quick" or l["name"] in DEMOTED or l["name"] in QUICK_EXCLUDE.get(prop, ())):
            continue
        out.append(l)
    return out


# The quick tier must finish well inside 15 minutes per property on a loaded 16-core box (measured: wall ~ 0.4 x the
# sum of the per-harness times under -j 12).  Lemmas that need more than ~250 s or 12 GB each run in the thorough tier
# only (DEMOTED); a lemma shared by several properties stays in the quick tier of the properties it is central to and
# is left to the thorough tier of the others (QUICK_EXCLUDE).
DEMOTED = {
    "ack_cap_64",            # 64-range instance: > 900 s
    "rs_size_small_n3",      # > 20 GB
    "rt_renet_small_unrel_1",  # 580 s
    "enc_len_payload_b", "enc_len_payload_c",  # 170-190 s each, same shape as enc_len_payload_a
    "ur_discard_n2",         # 300 s (ur_discard_n1 stays)
    "rr_recv_ord_m2",        # 185 s (rr_recv_ord_m1 stays)
}
QUICK_EXCLUDE = {
    "C01": {"rr_slice_ord_other", "sc_step_3600_1", "sc_step_1201_0d"},
    "C02": {"rr_slice_unord_other", "sc_step_3600_1", "sc_step_1201_0d", "rr_msg_unord_m1"},
    "C03": {"rr_slice_ord_i1", "rr_slice_unord_i0_done", "ur_slice_other", "ur_slice_oob", "ur_slice_i0"},
    "C06": {"rr_slice_unord_other", "rr_slice_ord_other", "rr_slice_unord_i0_done", "rr_slice_ord_i0_done", "ur_slice_i0_done",
            "ur_slice_i0", "rr_msg_unord_m1", "rr_msg_ord_m1", "rr_slice_ord_oob"},
    "C09": {"rr_slice_ord_i1", "rr_slice_ord_other", "ur_slice_other", "rr_slice_unord_i0_done", "ur_slice_i1", "ur_slice_oob", "ur_slice_i0",
            "rr_msg_unord_m1", "rr_recv_ord_m1"},
    "C17": {"dec_witness", "srv_disconnect_01", "enc_len_challenge", "enc_len_response", "enc_len_payload_max0", "enc_len_payload_max8"},
    "C19": {"dec_witness", "enc_len_payload_max0", "enc_len_payload_max8", "enc_len_payload_over"},
    "C13": {"enc_len_response"},
    "C07": {"dec_witness"},
    "C04": {"ns_frame_connected_10_k0_req"},
    "C10": {"ns_frame_connected_10_k0_req", "srv_disconnect_11"},
}


# --------------------------------------------------------------------------------------------
# renetcode: replay window  (C04, C07)
RP = dict(crate="renetcode", file="replay_protection.rs", variant={"fs": 512})
L("rp_total", props=["C04", "C07"], functions="ReplayProtection::{already_received, advance_sequence}",
  claim="both operations return normally for every u64 sequence and every window contents", bound="none (all 2^64 sequences, all window contents)", **RP)
L("rp_once", props=["C04"], functions="ReplayProtection::{already_received, advance_sequence}", timeout=600,
  claim="inductive step: a sequence that is marked received stays rejected after any admitted advance", bound="sequences < 2^63; one step from an arbitrary window satisfying Inv_RP", **RP)
L("rp_complete", props=["C04"], functions="ReplayProtection::already_received",
  claim="a never-accepted sequence less than 256 behind the newest is admitted", bound="sequences < 2^63", **RP)
L("rp_old", props=["C04"], functions="ReplayProtection::already_received", claim="sequences 256 or more behind are rejected", bound="sequences < 2^63", **RP)
L("rp_init", props=["C04"], functions="ReplayProtection::new", claim="constructor state satisfies Inv_RP and admits everything", bound="none", **RP)
L("rp_witness", props=["C04", "C07"], expect="fail", functions="-", claim="vacuity witness", **RP)

# --------------------------------------------------------------------------------------------
# renetcode: packet decode / encode  (C04, C07, C13, C16, C17, C19)
PK = dict(crate="renetcode", file="packet.rs", variant={"fs": 512}, mem_gb=18, stubs="chacha20poly1305 primitive -> models/chacha.rs (identity cipher, recorded calls)")
L("dec_total_64", props=["C07", "C19"], functions="Packet::decode, read_sequence, decode_prefix, Packet::read, crypto::dencrypted_in_place, ReplayProtection::*",
  claim="decode returns normally for every datagram of at most 64 bytes (header, sequence and tag-length arithmetic); no handshake packet is ever parsed from them",
  bound="all datagrams of every length 0..=64 (all bytes symbolic), AEAD verdict nondeterministic, with / without key and window", **PK)
L("dec_total_400", props=["C07", "C19"], tier="thorough", timeout=1500, functions="Packet::decode, read_sequence, decode_prefix, Packet::read, crypto::dencrypted_in_place, ReplayProtection::*",
  claim="decode returns normally for every datagram of at most 400 bytes (this includes every challenge / response / keep-alive / denied / disconnect and payloads up to 375 B); a connection request is never parsed from them",
  bound="all datagrams of every length 0..=400 (all bytes symbolic), AEAD verdict nondeterministic, with / without key and window", **dict(PK, mem_gb=24))
L("dec_total", props=["C07", "C19"], tier="thorough", timeout=1200, functions="Packet::decode, read_sequence, decode_prefix, Packet::read, crypto::dencrypted_in_place, ReplayProtection::*",
  claim="decode returns normally for every datagram; request only from >=1078 B, response only from >=325 B",
  bound="all datagrams of every length 0..=1400 (all bytes symbolic), AEAD verdict nondeterministic", **PK)
L("dec_binding", props=["C04", "C17"], functions="Packet::decode, crypto::dencrypted_in_place, get_additional_data",
  claim="AEAD is called with (key arg, nonce=LE(seq bytes), aad=VERSION|pid|prefix, ct=bytes after header, tag=last 16 B): parsing is injective into the AEAD tuple",
  bound="all datagrams 0..=1400 B; ciphertext and tag witnessed at one symbolic offset each", **PK)
L("dec_window_order", props=["C04", "C07"], functions="Packet::decode, ReplayProtection::*",
  claim="window-rejected sequences never reach the AEAD; AEAD Err => window unchanged; AEAD Ok => exactly this sequence recorded (protected kinds only)",
  bound="all datagrams 0..=64 B (window logic is independent of body size), arbitrary window contents, sequences < 2^63, one witnessed window slot", **PK)
L("dec_witness", props=["C04", "C07", "C17", "C19"], expect="fail", functions="-", claim="vacuity witness", **PK)
for k in ("denied", "disconnect", "keepalive", "challenge", "response", "payload_a", "payload_b", "payload_c", "payload_max0", "payload_max8", "payload_over", "request"):
    L("enc_len_" + k, props=["C13", "C17", "C19"], functions="Packet::encode, write_sequence, encode_prefix, crypto::encrypt_in_place",
      claim="encode(%s) = 1+seqlen+body+16 bytes <= 1400, sealed under the given key with nonce=sequence and aad=VERSION|pid|prefix" % k,
      bound=("all u64 sequences, all keys/protocol ids/fields" if k in ("denied", "disconnect", "keepalive") else "17 class-boundary sequences (0,1,255,256,...,2^64-1: concrete offsets), all keys/protocol ids/token bytes") + {"payload_a": "; every payload length 0..=64 (128 B buffer)", "payload_b": "; every payload length 0..=64 (128 B buffer)", "payload_c": "; every payload length 0..=64 (128 B buffer)", "payload_max0": "; payload 0..=1300 into 1400 B, sequence 0, length formula only", "payload_max8": "; payload 0..=1300 into 1400 B, sequence 2^64-1, length formula only", "payload_over": "; payload 0..=1400, sequence 2^64-1"}.get(k, ""), **PK)
for k in ("denied", "disconnect", "keepalive", "challenge_a", "challenge_b", "challenge_c", "response_a", "response_b", "response_c", "payload_s0", "payload_s1", "payload_s4", "payload_s8", "payload_sizes", "request"):
    L("rt_nc_" + k, props=["C16"], functions="Packet::encode, Packet::decode, Packet::write, Packet::read",
      tier="thorough" if k in ("payload_s1", "payload_s4", "payload_sizes", "challenge_b", "response_b") else "quick", timeout=900 if k == "payload_sizes" else 400,
      claim="decode(encode(p)) == (sequence, p) for kind %s" % k.split("_")[0],
      bound=("all u64 sequences" if k in ("denied", "disconnect", "keepalive") else "class-boundary sequences (17 values, split over instances)") + ", all field values; arrays witnessed at one symbolic offset; payload lengths 0..=64; identity AEAD", **PK)
L("rt_challenge_token", props=["C16", "C05"], functions="Packet::generate_challenge, ChallengeToken::{write, read, decode}",
  claim="challenge token seals exactly (client id, user data) under the challenge key / sequence and decodes to them", bound="all ids, user data witnessed at one offset", **PK)
L("enc_witness", props=["C13", "C16"], expect="fail", functions="-", claim="vacuity witness", **PK)

# --------------------------------------------------------------------------------------------
# renet: slice constructor (C03, C06)
SC = dict(crate="renet", file="channel/slice_constructor.rs", variant={"bytes": "vec", "cap": 2, "qcap": 2, "fs": 128})
for nm in ("n1_l1", "n2_l1", "n2_l1200", "n2_l1201", "n3_l1199", "n3_l1200", "n2_l0"):
    L("sc_hostile_" + nm, props=["C06"], functions="SliceConstructor::process_slice",
      claim="any slice index (any usize) and any received-flag state: returns normally, out-of-range index never accepted",
      bound="constructor of %s slices, payload length %s (concrete per instance), index and flags symbolic" % (nm[1], nm.split("_l")[1]), **SC)
L("sc_witness", props=["C06", "C03"], expect="fail", functions="-", claim="vacuity witness", **SC)
for nm in ("1201_0", "1201_0d", "1201_1", "1201_1d", "2400_0", "2400_0d", "2400_1", "2399_1", "2401_2", "3600_1", "3600_1d", "3600_2"):
    L("sc_step_" + nm, props=["C03", "C01", "C02"], functions="SliceConstructor::process_slice",
      tier="quick" if nm in ("1201_1", "1201_0d", "2400_0", "2400_1", "3600_1") else "thorough",
      claim="genuine slice: completes only when all slices are in, output length == |M| and output byte == M byte at every offset (witness); duplicates change nothing",
      bound="message length %s, slice index %s (concrete per instance; suffix d = last slice already received); content, other received flags, witness offset symbolic" % tuple(nm.split("_")), **SC)
L("sc_init", props=["C03"], functions="SliceConstructor::new", claim="fresh constructor satisfies its invariant", bound="3 slices", **SC)

# --------------------------------------------------------------------------------------------
# renet: reliable channel, receive side (C01, C02, C06, C09)
RR = dict(crate="renet", file="channel/reliable.rs")
V2 = {"bytes": "len", "cap": 2, "qcap": 2}
V3 = {"bytes": "len", "cap": 3, "qcap": 3}
V2S = {"bytes": "len", "cap": 2, "qcap": 2, "slice_size": 8}
for nm, props, v, tier in (
        ("rr_msg_ord_m0", ["C01", "C06", "C09"], V2, "quick"), ("rr_msg_ord_m1", ["C01", "C06", "C09"], V2, "quick"),
        ("rr_msg_ord_m1c", ["C01", "C09"], V2, "thorough"), ("rr_msg_ord_m2", ["C01", "C09"], V3, "thorough"),
        ("rr_msg_unord_m0", ["C02", "C06", "C09"], V2, "quick"), ("rr_msg_unord_m1", ["C02", "C06", "C09"], V2, "quick"),
        ("rr_msg_unord_m1c", ["C02", "C09"], V2, "thorough"), ("rr_msg_unord_m2", ["C02", "C09"], V3, "thorough")):
    L(nm, props=props, variant=v, tier=tier, timeout=900 if nm.endswith("m2") else 400, functions="ReceiveChannelReliable::process_message",
      claim="one arrival from an arbitrary state: buffered exactly once with its own content unless duplicate/old (then nothing changes) or over budget (error, nothing changes); "
            "cursor unchanged; accounting == recomputed sum <= max; Inv_LF kept",
      bound="occupancy fixed per instance (%s); ids < 2^62, lengths <= 4000, max <= 2^40, all symbolic" % nm.split("_")[-1], **RR)
for nm, props, v, tier in (
        ("rr_recv_ord_m1", ["C01", "C09"], V2, "quick"), ("rr_recv_ord_m2", ["C01", "C09"], V2, "quick"), ("rr_recv_ord_m1c", ["C01", "C09"], V2, "thorough"),
        ("rr_recv_unord_m0", ["C02"], V2, "thorough"), ("rr_recv_unord_m1", ["C02", "C09"], V2, "quick"), ("rr_recv_unord_m1s2", ["C02", "C09"], V2, "quick"),
        ("rr_recv_unord_m2", ["C02", "C09"], V2, "quick"), ("rr_recv_unord_m1c", ["C02", "C09"], V2, "thorough")):
    L(nm, props=props, variant=v, tier=tier, functions="ReceiveChannelReliable::receive_message",
      claim=("ordered: delivers exactly the message buffered for the cursor id, cursor+1, else None and nothing changes" if "_ord_" in nm else
             "unordered: delivers the smallest buffered id without waiting, the id stays seen, seen() is monotone, cursor skips only seen ids") +
            "; accounting and Inv_LF kept; other buffered messages untouched (witness id)",
      bound="occupancy fixed per instance (%s); ids, lengths, cursor symbolic" % nm.split("_")[-1], **RR)
for nm, props, tier in (
        ("rr_slice_ord_i0", ["C01", "C06", "C09"], "thorough"), ("rr_slice_ord_i0_done", ["C01", "C03", "C06", "C09"], "quick"),
        ("rr_slice_ord_i1", ["C01", "C03", "C06", "C09"], "quick"), ("rr_slice_ord_i1_full", ["C06", "C09"], "thorough"),
        ("rr_slice_ord_i1_dup", ["C01", "C06", "C09"], "thorough"), ("rr_slice_ord_oob", ["C06"], "quick"),
        ("rr_slice_unord_i0_done", ["C02", "C03", "C06", "C09"], "quick"), ("rr_slice_unord_i1", ["C02", "C06", "C09"], "thorough"),
        ("rr_slice_unord_oob", ["C06"], "thorough"),
        ("rr_slice_ord_other", ["C01", "C06", "C09"], "quick"), ("rr_slice_unord_other", ["C02", "C06", "C09"], "quick"),
        ("rr_slice_unord_other_s2", ["C02", "C09"], "thorough")):
    L(nm, props=props, variant=V2S, tier=tier, timeout=600, mem_gb=16,
      functions="ReceiveChannelReliable::process_slice, SliceConstructor::process_slice, ReceiveChannelReliable::process_message",
      claim="ANY V-valid slice on a state with one buffered message and one live 2-slice constructor: returns; a slice of an assembled/consumed message changes nothing; "
            "a genuine slice buffers or completes with exact accounting; a slice whose num_slices contradicts the constructor cannot wrap the accounting; "
            "accounting == recomputed sum <= max; Inv_LF kept",
      bound="1 buffered message, 1 live constructor (2 slices); instance fixes: order mode, payload length, last-slice-present flag, index class (0 / 1 / any >= 2), "
            "same-id (num_slices arbitrary 1..10^6) or other-id (num_slices 2); SLICE_SIZE literal rewritten 1200 -> 8 in the staged copy (channel code is parametric in it)", **RR)
L("rr_init", props=["C01", "C02", "C09"], variant=V2, functions="ReceiveChannelReliable::new", claim="fresh channel: empty, cursor 0, invariants hold", bound="none", **RR)
L("rr_witness", props=["C01", "C02", "C09", "C06"], variant=V2, expect="fail", functions="-", claim="vacuity witness", **RR)

# renet: reliable channel, send side (C01-C03, C08, C09, C13, C14, C15)
for nm in ("rs_send_n0", "rs_send_n1"):
    L(nm, props=["C01", "C02", "C03", "C09"], variant=V2, functions="SendChannelReliable::{send_message, can_send_message, available_memory}, UnackedMessage::new_sliced",
      claim="send refuses iff mem+len > max (nothing changes) else assigns the next id exactly once, mem += len, stores Small iff len <= 1200 else Sliced with ceil(len/1200) slices",
      bound="%s queued messages; len <= 4000, ids < 2^62, max <= 2^40 symbolic" % nm[-1], **RR)
for nm, tier in (("rs_gps_small_n1", "quick"), ("rs_gps_small_n2", "quick")):
    L(nm, props=["C14", "C15", "C08", "C01", "C02"], variant=V2, tier=tier, timeout=600,
      functions="SendChannelReliable::get_packets_to_send (small messages)",
      claim="budget deducted == bytes of the messages emitted, threaded in id order; a message is emitted iff due (never sent or now-last >= resend) and avail >= len; "
            "timer refreshed iff emitted, untouched otherwise; nothing released; sequence advances once per packet; no packet when nothing is due/affordable",
      bound="%s queued small messages (occupancy fixed), lengths 0..=1200, ids/sequence < 2^62, whole-second clock/resend, budget symbolic" % nm[-1], **RR)
for nm, tier in (("rs_pack_small_n1", "thorough"), ("rs_pack_small_n2", "thorough")):
    L(nm, props=["C03", "C13"], variant=V2, tier=tier, timeout=1500, mem_gb=20, heavy=True,
      functions="SendChannelReliable::get_packets_to_send (packing of small messages)",
      claim="every queued message is listed exactly once, in order, with its own id and bytes; packets carry consecutive sequences; every packet serializes to <= 1300 B across all varint width classes",
      bound="%s queued small messages, timers None and budget unlimited (concrete), ids/lengths/sequence symbolic; packets read back at concrete indices" % nm[-1], **RR)
L("rs_size_small_n3", props=["C13"], variant=V3, tier="quick", timeout=1200, mem_gb=20, functions="SendChannelReliable::get_packets_to_send (packing threshold)",
  claim="with three queued small messages every SmallReliable packet of the tick serializes to <= 1300 bytes (message counts read per packet, sizes attributed in id order)",
  bound="3 queued messages, lengths 0..=1200, ids < 2^62 (all varint classes), timers None, budget unlimited", **RR)
for nm, tier in (("rs_gps_sliced_n2", "quick"), ("rs_gps_sliced_n3", "quick")):
    L(nm, props=["C14", "C15", "C01", "C02"], variant=V2, tier=tier, timeout=600,
      functions="SendChannelReliable::get_packets_to_send (sliced message)",
      claim="slice i is emitted iff unacked, due and >= 1200 bytes of budget remain at its turn (round robin from next_slice_to_send); budget deducted == payload bytes; "
            "acked slices never re-emitted; timers refreshed iff emitted; one packet per emitted slice",
      bound="one sliced message of %s slices, length symbolic in its class; ack flags, timers, start index, budget, clock symbolic" % nm[-1], **RR)
for nm, tier in (("rs_pack_sliced_n2", "thorough"), ("rs_pack_sliced_n3", "thorough")):
    L(nm, props=["C03", "C13"], variant=V2, tier=tier, timeout=1500, mem_gb=20, heavy=True,
      functions="SendChannelReliable::get_packets_to_send (slicing plan on the wire)",
      claim="a fresh sliced message yields exactly num_slices packets, slice i = bytes [1200 i, min(1200(i+1), len)) with num_slices = ceil(len/1200), each index once, each packet <= 1300 B",
      bound="one sliced message of %s slices, nothing acked, timers None, budget unlimited (concrete); id, length, sequence symbolic" % nm[-1], **RR)
L("rs_ack_small", props=["C08", "C09", "C15", "C01", "C02"], variant=V2, functions="SendChannelReliable::process_message_ack",
  claim="ack(id) releases exactly that message and returns its bytes once; unknown/duplicate ack changes nothing (so it is never emitted again: rs_gps_* only visit queued entries)",
  bound="2 queued small messages, ids/lengths symbolic", **RR)
for nm, tier in (("rs_ack_slice_n2", "quick"), ("rs_ack_slice_n3", "thorough")):
    L(nm, props=["C08", "C09", "C15", "C01", "C02"], variant=V2, tier=tier, functions="SendChannelReliable::process_slice_message_ack",
      claim="a sliced message is released (bytes returned once) exactly when every slice index has been acknowledged; duplicate/foreign acks change nothing",
      bound="one sliced message of %s slices, ack flags symbolic, slice index < num_slices (Inv_SP)" % nm[-1], **RR)
L("rs_init", props=["C09", "C14"], variant=V2, functions="SendChannelReliable::new", claim="fresh channel empty; get_packets_to_send on empty returns nothing and leaves budget/sequence", bound="none", **RR)
L("rs_witness", props=["C03", "C08", "C13", "C14", "C15"], variant=V2, expect="fail", functions="-", claim="vacuity witness", **RR)

# --------------------------------------------------------------------------------------------
# renet: unreliable channel (C03, C06, C09, C13, C14)
UR = dict(crate="renet", file="channel/unreliable.rs")
for nm in ("us_send_n0", "us_send_n1"):
    L(nm, props=["C09", "C03"], variant=V2, functions="SendChannelUnreliable::{send_message, can_send_message, available_memory}",
      claim="a message is queued exactly once with its own bytes iff mem+len <= max, otherwise dropped whole; accounting exact",
      bound="%s queued messages, lengths <= 4000, max <= 2^40 symbolic" % nm[-1], **UR)
for nm in ("us_gps_n1", "us_gps_n2"):
    L(nm, props=["C09", "C14"], variant=V2, timeout=600, functions="SendChannelUnreliable::get_packets_to_send",
      claim="the queue is flushed and its bytes returned whatever the budget; budget deducted == bytes of messages that fitted at their turn (queue order); "
            "what does not fit is dropped whole; sequence +1 per packet; slice id +1 per sliced message sent",
      bound="%s queued messages of 0..=2400 bytes (<= 2 slices), budget/sequence/ids symbolic" % nm[-1], **UR)
L("us_pack_small", props=["C03", "C13"], variant=V2, tier="thorough", timeout=1400, mem_gb=18, functions="SendChannelUnreliable::get_packets_to_send",
  claim="one small message travels in one SmallUnreliable packet with exactly its bytes, <= 1300 B", bound="1 message 0..=1200 B, budget unlimited", **UR)
L("us_pack_sliced", props=["C03", "C13"], variant=V2, tier="thorough", timeout=1400, mem_gb=18, functions="SendChannelUnreliable::get_packets_to_send",
  claim="a message of (1200,2400] bytes travels as exactly two slices, slice i = bytes [1200 i, ..), same slice message id, each <= 1300 B", bound="1 message, budget unlimited", **UR)
for nm in ("ur_msg_n0", "ur_msg_n1"):
    L(nm, props=["C03", "C09"], variant=V2, functions="ReceiveChannelUnreliable::{process_message, receive_message}",
      claim="a delivered message is queued once iff within budget (else dropped whole) and handed out FIFO with its own bytes, bytes returned; nothing fabricated",
      bound="%s queued messages; lengths <= 4000, max <= 2^40 symbolic" % nm[-1], **UR)
for nm, tier in (("ur_slice_i0", "quick"), ("ur_slice_i0_done", "quick"), ("ur_slice_i1", "quick"), ("ur_slice_i1_empty", "thorough"), ("ur_slice_oob", "quick"), ("ur_slice_other", "quick")):
    L(nm, props=["C03", "C06", "C09"], variant=V2S, tier=tier, timeout=600, mem_gb=16,
      functions="ReceiveChannelUnreliable::process_slice, SliceConstructor::process_slice",
      claim="ANY V-valid slice on a state with one queued message and one live 2-slice constructor: returns; a message surfaces only when its last missing slice arrives, exactly once; "
            "a lying num_slices cannot wrap the accounting; accounting == recomputed sum <= max; slices / slices_last_received stay in step",
      bound="instance fixes payload length, last-slice-present flag, index class (0/1/any >= 2), same id (num_slices arbitrary) or other id (num_slices 2); SLICE_SIZE literal rewritten 1200 -> 8", **UR)
for nm in ("ur_discard_n1", "ur_discard_n2"):
    L(nm, props=["C09"], variant=V2S, functions="ReceiveChannelUnreliable::discard_incomplete_old_slices",
      claim="afterwards exactly the constructors without progress for >= 3 s are gone (ids in any arrival-time order), their reservation returned, key sets in step",
      bound="%s live constructors, ids and last-progress times symbolic (whole seconds)" % nm[-1], **UR)
L("ur_init", props=["C09"], variant=V2, functions="SendChannelUnreliable::new, ReceiveChannelUnreliable::new", claim="fresh channels are empty", bound="none", **UR)
L("ur_witness", props=["C03", "C09", "C14"], variant=V2, expect="fail", functions="-", claim="vacuity witness", **UR)

# --------------------------------------------------------------------------------------------
# renet: connection level (C06, C08, C12, C13, C16)
RC = dict(crate="renet", file="remote_connection.rs")
for nm, tier in (("ack_add_n0", "quick"), ("ack_add_n1", "quick"), ("ack_add_n2", "quick"), ("ack_add_n3", "thorough")):
    L(nm, props=["C08", "C16"], variant=V2, tier=tier, timeout=600, functions="RenetClient::add_pending_ack",
      claim="pending acks stay sorted/disjoint/non-adjacent and denote exactly old set + {sequence}: an endpoint never acknowledges a sequence it did not receive",
      bound="list of %s ranges (length fixed per instance), all bounds and the new sequence symbolic < 2^62, witness sequence" % nm[-1], **RC)
L("ack_cap_64", props=["C13", "C16", "C08"], variant=V2, timeout=900, mem_gb=16, functions="RenetClient::add_pending_ack",
  claim="with 64 ranges pending, recording any further sequence (below, between or above) keeps at most 64 ranges and keeps the newest", bound="64 single-element ranges 1000,1010,..,1630 and new sequences 990 / 1005 (left inserts; concrete: a symbolic insert position into a 64-element Vec exceeds 16 GB)", **RC)
for nm, tier in (("ack_largest_n1", "quick"), ("ack_largest_n2", "quick"), ("ack_largest_n3", "thorough")):
    L(nm, props=["C08"], variant=V2, tier=tier, timeout=600, functions="RenetClient::acked_largest",
      claim="trimming forgets exactly the sequences <= the largest sequence covered by an acknowledged ack packet", bound="list of %s ranges, all symbolic" % nm[-1], **RC)
for nm in ("dc_absorb_set_connected", "dc_absorb_set_connecting", "dc_absorb_disconnect", "dc_absorb_transport", "dc_absorb_send_rel", "dc_absorb_send_unrel",
           "dc_absorb_recv_rel", "dc_absorb_recv_unrel", "dc_absorb_gps", "dc_absorb_reason", "dc_absorb_update"):
    L(nm, props=["C12"], variant=V2, timeout=600, functions="RenetClient::{set_connected, set_connecting, disconnect, disconnect_due_to_transport, send_message, receive_message, process_packet, get_packets_to_send, update, disconnect_with_reason}",
      claim="Disconnected{r} is absorbing: status and first reason unchanged, nothing emitted, accepted or handed out, channel observables unchanged",
      bound="client with one reliable + one unreliable channel per direction, any reason shape, one public call (%s); raw packets <= 8 B" % nm.split("absorb_")[1],
      stubs="ConnectionStats::update (telemetry; divides a symbolic u128)", **RC)
L("dc_first_reason", props=["C12"], variant=V2, functions="RenetClient::{disconnect, disconnect_due_to_transport, disconnect_with_reason, set_connected, set_connecting}",
  claim="the first disconnect cause is kept whatever follows", bound="all reason shapes", **RC)
L("rc_witness", props=["C08", "C12", "C16"], variant=V2, expect="fail", functions="-", claim="vacuity witness", **RC)

# --------------------------------------------------------------------------------------------
# renet: wire format (C06, C13, C16)
RP = dict(crate="renet", file="packet.rs")
VV = {"bytes": "vec", "cap": 2, "qcap": 2, "fs": 128}
for nm in ("rt_renet_small_rel_1", "rt_renet_small_rel_2", "rt_renet_small_rel_empty", "rt_renet_small_unrel_1", "rt_renet_small_unrel_2",
           "rt_renet_slice_rel", "rt_renet_slice_unrel", "rt_renet_ack_1", "rt_renet_ack_2", "rt_renet_ack_3"):
    L(nm, props=["C16", "C13"] + (["C08"] if "ack" in nm else []), variant=VV, timeout=1800 if nm != "rt_renet_small_unrel_1" else 1000, mem_gb=16,
      tier="quick" if nm in ("rt_renet_small_unrel_1",) else "thorough",
      functions="Packet::to_bytes, Packet::from_bytes (octets varints)",
      claim="from_bytes(to_bytes(p)) == p, the whole serialization is consumed, and its length equals the wire-format formula" +
            (" (an ack packet denotes exactly its set of sequences)" if "ack" in nm else ""),
      bound="all field magnitudes < 2^62 across the 1/2/4/8-byte varint classes; message/payload lengths and range count fixed per instance (<= 3 bytes, <= 3 ranges)", **RP)
# With a harness-chosen type byte CBMC still explores all five parser arms (the byte is read back through a pointer copy and is not
# constant-propagated), so one harness over a fully symbolic first byte costs the same as each per-type instance: > 16 GB / 10-30 min.
for nm, nb in (("parse_total_8", 8), ("parse_total_12", 12)):
    L(nm, props=["C06"], variant=VV, tier="thorough", timeout=3000, mem_gb=30, heavy=True,
      functions="Packet::from_bytes",
      claim="the parser returns normally on every byte string and every Ok value satisfies V (slice count 1..=10^6, reliable slice payload 1..=1200, ack ranges non-empty/ascending/separated); an unknown type byte is an error",
      bound="all byte strings of length <= %d (every first byte)" % nb, **RP)
for nm in ("rt_renet_rev_t0", "rt_renet_rev_t2", "rt_renet_rev_t4"):
    L(nm, props=["C16"], variant=VV, tier="thorough", timeout=1800, mem_gb=16, functions="Packet::from_bytes, Packet::to_bytes",
      claim="a byte string that decodes re-encodes to bytes that decode to the same value", bound="all byte strings <= 8 B of packet type %s" % nm[-1], **RP)
L("ser_short_buffer", props=["C13"], variant=VV, functions="Packet::to_bytes", claim="a too small buffer yields BufferTooShort, never a panic or an over-long write", bound="buffer 0..=24 B", **RP)
L("pk_witness", props=["C06", "C16", "C13"], variant=VV, expect="fail", functions="-", claim="vacuity witness (serializer)", **RP)

# renet: server (C11, C12)
RS = dict(crate="renet", file="server.rs")
for nm in ("ev_add_n0", "ev_disconnect_n1", "ev_disconnect_all_n2"):  # ev_add_same_n1 and dc_absorb_packet exceed the caps: not registered
    L(nm, props=["C12"], variant=V2, timeout=600, functions="RenetServer::{add_connection, disconnect, disconnect_all}",
      claim="an event is reported exactly when the witness client's membership changes (Connected only when it was absent); disconnect / disconnect_all keep the first reason and report nothing; "
            "adding an id that is already present (healthy or disconnected) replaces nothing",
      bound="%s existing connection(s) with symbolic ids and symbolic healthy/disconnected(reason) status; one call; empty event queue beforehand" % nm[-1], **RS)
for nm in ("srv_frame_disconnect",):  # send / receive / packet / get_packets instances exceed 12 GB (RenetClient values in model-map slots): not claimed
    L(nm, props=["C11", "C06"] if "packet" in nm else ["C11"], variant=V2, timeout=900, mem_gb=16,
      tier="thorough" if nm in ("srv_frame_send_unrel",) else "quick",
      functions="RenetServer::{send_message, receive_message, disconnect, process_packet_from, get_packets_to_send}",
      claim="an operation addressed to one client (or to an unknown id) changes no observable of another client (channel memory, pending acks, status)",
      bound="two connections, each with one reliable + one unreliable channel per direction; raw packets <= 6 B", **RS)
for nm in ("bcast_rel", "bcast_unrel", "bcast_except_rel"):
    L(nm, props=["C11"], variant=V2, timeout=900, mem_gb=16, functions="RenetServer::{broadcast_message, broadcast_message_except}",
      claim="a broadcast queues exactly one message of the right length on every connection that is not disconnected (minus the excluded id) and touches nothing else",
      bound="two connections (one possibly disconnected), message length <= 1000", **RS)
L("srv_witness", props=["C11", "C12"], variant=V2, expect="fail", functions="-", claim="vacuity witness", **RS)

# --------------------------------------------------------------------------------------------
# renetcode: client (C07, C17, C18)
NC = dict(crate="renetcode", file="client.rs", variant={"fs": 512}, stubs="chacha20poly1305 primitive -> models/chacha.rs")
for nm in ("client_new_total_a0", "client_new_total_a1", "client_new_total_a2"):
    L(nm, props=["C07"], functions="NetcodeClient::new", claim="constructing a client from any token a parser can return yields Ok or Err, never a panic; Ok only with a first server address",
      bound="token with %s leading address slots filled (count fixed per instance), every other field symbolic" % nm[-1], **NC)
for nm in ("cl_update_connected", "cl_update_requesting_a1", "cl_update_requesting_a2", "cl_update_responding_a2", "cl_update_disconnected"):
    L(nm, props=["C07", "C18"], timeout=600, functions="NetcodeClient::update_internal_state",
      claim="update returns normally for every token/clock; connected: timed out iff timeout>0 and last authentic packet + timeout < now; connecting: expired iff elapsed >= token lifetime, "
            "else on timeout fail over to the next listed address (timers reset) or give up; disconnected stays disconnected",
      bound="state fixed per instance, token fields / clocks (whole seconds < 2^40) / timeout symbolic", **NC)
for nm in ("cl_emit_requesting", "cl_emit_responding", "cl_emit_connected", "cl_emit_disconnected"):
    L(nm, props=["C17", "C18"], timeout=900, mem_gb=16, functions="NetcodeClient::generate_packet, Packet::encode",
      claim="the state's packet is emitted iff the 250 ms send timer elapsed (never when disconnected), to the current server address; it is sealed under (client_to_server_key, sequence) and the sequence then advances by one",
      bound="state fixed per instance; sequence < 2^62, clocks, keys symbolic", **NC)
# cl_payload_nonce / cl_payload_limit exceed 16 GB (1400-byte out buffer written at a symbolic length): not registered
L("cl_disconnect_nonce", props=["C17"], timeout=900, functions="NetcodeClient::{disconnect, generate_packet, generate_payload_packet}",
  claim="disconnect seals under (key, sequence) and leaves a state from which nothing else is sealed", bound="connected client", **NC)
for nm in ("cl_frame_requesting", "cl_frame_responding", "cl_frame_connected", "cl_frame_disconnected"):
    L(nm, props=["C07", "C18", "C04"], timeout=1500, mem_gb=20, tier="thorough", functions="NetcodeClient::process_packet, Packet::decode",
      claim="a datagram the AEAD does not accept (or the window rejects) changes nothing: state, receive/send timers, window, counters; payloads surface only when connected; only legal transitions",
      bound="all datagrams 0..=64 B, arbitrary window, state fixed per instance, AEAD verdict nondeterministic", **NC)
L("cl_progress", props=["C18"], timeout=900, mem_gb=16, functions="NetcodeClient::process_packet", claim="authentic challenge -> responding (challenge stored, timer reset); authentic keep-alive -> connected; authentic disconnect -> disconnected by server",
  bound="one scripted sequence with symbolic token / challenge sequence", **NC)
L("cl_witness", props=["C07", "C17", "C18"], expect="fail", functions="-", claim="vacuity witness", **NC)

# --------------------------------------------------------------------------------------------
# renetcode: tokens (C05, C07, C16, C17)
TK = dict(crate="renetcode", file="token.rs", variant={"fs": 512}, stubs="chacha20poly1305 primitive -> models/chacha.rs (identity cipher, recorded calls)")
# The token lemmas (rt_token_priv_*, rt_token_pub_*, tok_read_total_*, tok_priv_decode_total in harness/renetcode/token.rs)
# are NOT registered: every instance ran into the 900 s cap (1024-byte sealed part / 1300-byte source: arrays above
# CBMC's flattening threshold).  Token parsing / round trips are therefore outside the claims of C07 / C16 / C05.

# Private-token lemmas at SHRUNK sizes (private part 192 B, user data 8 B; token.rs is parametric in both): seal / open round trip
# and what the seal is bound to.  The public ConnectToken::read lemmas (symbolic-length source) still exceed 15 min and stay unregistered.
TKS = dict(crate="renetcode", file="token.rs", variant={"fs": 512, "consts": {"NETCODE_USER_DATA_BYTES": 8, "NETCODE_CONNECT_TOKEN_PRIVATE_BYTES": 192}},
           stubs="chacha20poly1305 primitive -> models/chacha.rs (identity cipher, recorded calls)")
for nm, tier in (("rt_token_priv_k1_v4", "quick"), ("rt_token_priv_k1_v6", "thorough"), ("rt_token_priv_k2_mix", "thorough"), ("rt_token_priv_k3_mix", "thorough")):
    L(nm, props=["C16", "C05", "C17"], tier=tier, timeout=900, mem_gb=14, functions="PrivateConnectToken::{encode, decode, write, read}, write_server_addresses, read_server_addresses, get_additional_data, crypto::*_xnonce",
      claim="a private connect token seals under (server key, token xnonce) with aad = VERSION | protocol id | expiry - so a changed public expiry or protocol id is another AEAD tuple - and opens to exactly "
            "the id, timeout, address list, keys and user data that were sealed",
      bound="%s listed address(es) with fixed families, every other field symbolic; user data witnessed at one offset; private part 192 B, user data 8 B (constants shrunk)" % nm.split("_k")[1][0], **TKS)
L("tok_priv_decode_total", props=["C07"], timeout=900, mem_gb=14, functions="PrivateConnectToken::{decode, read}, read_server_addresses",
  claim="opening and parsing a private token returns normally whatever its bytes and whatever the AEAD answers", bound="one IPv4 address announced (offsets concrete), all other bytes symbolic; sizes shrunk", **TKS)
L("tokp_witness", props=["C16", "C05", "C17", "C07"], expect="fail", functions="-", claim="vacuity witness", **TKS)

# --------------------------------------------------------------------------------------------
# renetcode: server (C05, C07, C10, C17, C18, C19)   model-small: NETCODE_MAX_CLIENTS 1024 -> 2
NS = dict(crate="renetcode", file="server.rs", variant={"fs": 512, "max_clients": 2, "cap": 2},
          stubs="chacha20poly1305 primitive -> models/chacha.rs (recording identity cipher; DEC_MODE 3 = ideal AEAD: only tuples sealed by honest parties verify)")
L("srv_nonce_init", props=["C17"], timeout=600, functions="NetcodeServer::new",
  claim="the server-wide sequence used to seal handshake replies under a session's send key starts at >= 2^63, so it can never collide with that session's own counter (which starts at 0)",
  bound="max_clients 2", **NS)
for nm in ("srv_disconnect_11", "srv_disconnect_01"):
    L(nm, props=["C10", "C17"], timeout=900, mem_gb=16, functions="NetcodeServer::disconnect",
      claim="ClientDisconnected{id, addr} iff a slot holds id, naming that slot's address; the packet is sealed under that session's (send key, sequence); otherwise None",
      bound="2 slots, occupancy %s fixed, ids/addresses/keys symbolic (pairwise distinct ids and addresses)" % nm[-2:], **NS)
# srv_resp_guard_* (response path; the lemma that exhibited F8 in the design-phase probe) need 20-35 GB with the recording AEAD model: not registered
for nm in ("tok_entry_n1", "tok_entry_n2"):
    L(nm, props=["C05"], timeout=600, functions="NetcodeServer::find_or_add_connect_token_entry",
      claim="a token (identified by its MAC) already used from one address is refused from any other address and its binding is never rewritten; a fresh token is recorded with its address",
      bound="table of 4 entries (NETCODE_MAX_CLIENTS = 2) holding %s entries, MACs and addresses symbolic" % nm[-1], **NS)
L("srv_req_unauth", props=["C05", "C07", "C19"], timeout=600, mem_gb=16, functions="NetcodeServer::handle_connection_request, PrivateConnectToken::decode",
  claim="a connection request whose private token does not authenticate is an error, gets no answer and changes no table or counter", bound="all request fields and the 1024 sealed bytes symbolic; AEAD rejects", **NS)
# not registered (each exceeded 16 GB / 15 min under CBMC; the harnesses remain in harness/renetcode/server.rs):
#   srv_update_client, srv_update_unknown, srv_payload_route, srv_frame_unknown, srv_frame_connected, srv_frame_connected_req, srv_surface_*
L("srv_witness", props=["C05", "C10", "C17", "C19", "C07"], expect="fail", functions="-", claim="vacuity witness", **NS)

# --------------------------------------------------------------------------------------------
# renetcode: server STEP lemmas in the contract variant (C04, C05, C07, C10, C13, C17, C18, C19)
#   * server.rs's calls to Packet::{decode, encode, generate_challenge}, ChallengeToken::decode, PrivateConnectToken::decode go to
#     contract functions (harness/renetcode/{packet,token}.rs) that implement what dec_* / enc_len_* / rt_nc_* / rt_challenge_token
#     prove about the real callees at the real sizes, plus ideal AEAD (models/netcode_contracts.rs);
#   * size constants shrunk (user data 8 B, private token 32 B, challenge token 32 B, packet 128 B, payload 64 B, window 4, 2 slots):
#     server.rs is parametric in them; their real relations are the SMT side conditions and the real-size packet lemmas.
NSC = dict(crate="renetcode", file="server.rs",
           variant={"fs": 512, "max_clients": 2, "cap": 2, "replay_window": 4, "contracts": True,
                    "consts": {"NETCODE_USER_DATA_BYTES": 8, "NETCODE_CONNECT_TOKEN_PRIVATE_BYTES": 32, "NETCODE_CHALLENGE_TOKEN_BYTES": 32,
                               "NETCODE_MAX_PACKET_BYTES": 128, "NETCODE_MAX_PAYLOAD_BYTES": 64}},
           stubs="contract functions for Packet::decode / encode / generate_challenge, ChallengeToken::decode, PrivateConnectToken::decode (ideal AEAD; "
                 "contracts = the packet lemmas dec_total, dec_binding, dec_window_order, enc_len_*, rt_nc_*, rt_challenge_token)")
_NSB = "2 client slots (occupancy %s fixed), <= 1 pending session, ids / addresses / keys / clocks (whole seconds) / counters symbolic; size constants shrunk (see variant)"
for nm, tier in (("ns_frame_connected_01_k1", "quick"), ("ns_frame_connected_11_k0", "thorough"), ("ns_frame_connected_11_k1", "thorough"), ("ns_frame_connected_10_k0_req", "quick")):
    L(nm, props=["C07", "C18", "C04", "C10"], tier=tier, timeout=900, mem_gb=14,
      functions="NetcodeServer::process_packet_internal (connected branch), find_client_mut_by_addr, ReplayProtection::*",
      claim="one datagram from a connected client's address, ANY bytes, authentic or not (symbolic): a payload / disconnect surfaces only from an authentic fresh packet of that kind sealed under THIS "
            "session's receive key and is attributed to this slot's id; the slot is cleared exactly on disconnect, no other slot changes; nothing is sealed or replied; a datagram that does not "
            "authenticate (forged, other key, other protocol, wrong kind, replayed, or an unauthenticated connection request) leaves timeout clock, confirmed flag, window and counters unchanged",
      bound=_NSB % nm.split("_")[3] + ("; datagram of request size (type-0 datagrams parse)" if nm.endswith("req") else "; datagram of 40 B"), **NSC)
for nm, tier in (("ns_update_client_11_k0", "thorough"), ("ns_update_client_11_k1", "thorough"), ("ns_update_client_01_k1", "quick")):
    L(nm, props=["C18", "C17", "C10"], tier=tier, timeout=900, mem_gb=14, functions="NetcodeServer::update_client",
      claim="a connected client is dropped iff timeout > 0 and last authentic packet + timeout < now (reported once with its id / address, slot cleared, disconnect sealed under (send key, sequence)); "
            "otherwise a keep-alive is sealed under (send key, sequence) iff the send timer elapsed and the sequence advances exactly once; the receive clock and the other slot are untouched",
      bound=_NSB % nm.split("_")[3], **NSC)
L("ns_unknown_id", props=["C10", "C12"], timeout=900, mem_gb=14, functions="NetcodeServer::{update_client, disconnect, generate_payload_packet, is_client_connected, client_addr, user_data}",
  claim="for an id that is not connected nothing is reported, sealed or changed (no disconnect without a connect)", bound=_NSB % "10", **NSC)
for nm, tier in (("ns_payload_route_11_k0", "thorough"), ("ns_payload_route_11_k1", "quick"), ("ns_payload_route_max", "thorough"), ("ns_payload_route_over", "quick")):
    L(nm, props=["C17", "C10", "C13"], tier=tier, timeout=900, mem_gb=14, functions="NetcodeServer::generate_payload_packet",
      claim="a payload is sealed under the (send key, sequence) of the session whose id matches and addressed to that session's address, the sequence then advances by one, the datagram fits the "
            "packet limit; a payload above the payload limit is refused and seals nothing", bound=_NSB % nm.split("_")[3] + "; payload 8 B / limit / limit + 1", **NSC)
L("ns_update_pending", props=["C18"], timeout=900, mem_gb=14, functions="NetcodeServer::update",
  claim="a pending session is dropped exactly when the clock passes its connect token's expiry; connected clients are untouched", bound=_NSB % "10", **NSC)
L("ns_frame_unknown", props=["C07", "C19", "C05"], timeout=900, mem_gb=14, functions="NetcodeServer::process_packet_internal (new-address branch)",
  claim="a datagram shorter than a connection request from an address that is neither connected nor pending is an error: no reply, no state change, whatever it claims to be",
  bound=_NSB % "10" + "; all datagrams of 0..=40 B", **NSC)
for nm in ("ns_req_guard_00_e0", "ns_req_guard_10_e1", "ns_req_guard_11_e1", "ns_req_guard_10_e0_pend"):  # (11_e0 exists in the harness file; 14-16 min and 16-20 GB each)
    L(nm, props=["C05", "C19", "C17", "C10", "C18"], tier="thorough", timeout=2400, mem_gb=24, heavy=True,
      functions="NetcodeServer::{process_packet_internal, handle_connection_request, find_or_add_connect_token_entry}",
      claim="a connection request (all fields attacker chosen) is answered only if version / protocol id match, the clock is before the expiry it announces, its private token is authentic under "
            "the server's key for exactly this protocol id / expiry / xnonce / ciphertext, a listed host is this server (secure mode), neither id nor address is connected and the token is not "
            "bound to another address; the reply goes to the source, is smaller than the request, is sealed under (token's s2c key, server-wide sequence) which then advances; challenge iff a "
            "slot is free (fresh challenge sequence, seals this token's id + user data under the challenge key, pending session = the token's id / keys / timeout / user data, an existing pending "
            "session is kept), denied otherwise (no pending session left); no reply => no counter, pending or token-table change; unauthentic token => token table untouched; a valid request is answered",
      bound=_NSB % nm.split("_")[3] + "; token table with %s entry; secure flag and max_clients in {1,2} symbolic" % ("1" if "e1" in nm else "0"), **NSC)
for nm in ("ns_resp_guard_00", "ns_resp_guard_10", "ns_resp_guard_11"):  # (01 exists in the harness file)
    L(nm, props=["C05", "C10", "C17", "C19", "C18"], tier="thorough", timeout=2400, mem_gb=24, heavy=True,
      functions="NetcodeServer::process_packet_internal (pending branch)",
      claim="one datagram from a pending address (authentic or not, echoing ANY challenge): the client connects only by an authentic response of THIS session that echoes a challenge this server "
            "sealed for THIS session's id and user data, at the pending address, under the pending id, into a free slot, with no duplicate id; the first keep-alive is sealed under the session's "
            "(send key, sequence) and the sequence advances; a denied reply only when no slot is free, sealed with the server-wide sequence which then advances; otherwise the connection table is "
            "unchanged; a valid response connects when a slot is free",
      bound=_NSB % nm[-2:], **NSC)
for nm in ("ns_set_max_clients_n0", "ns_set_max_clients_n1", "ns_set_max_clients_n2", "ns_set_max_clients_n9"):
    L(nm, props=["C18", "C10"], tier="quick" if nm.endswith("n2") else "thorough", timeout=900, mem_gb=14, functions="NetcodeServer::set_max_clients",
      claim="after changing the client limit there are at least as many slots as the limit allows (so a handshake below the limit is not denied for lack of a slot) and existing sessions are untouched",
      bound="server constructed with 1 slot (occupied); requested limit %s (NETCODE_MAX_CLIENTS shrunk to 2)" % nm[-1], **NSC)
L("ns_witness", props=["C04", "C05", "C07", "C10", "C13", "C17", "C18", "C19"], expect="fail", functions="-", claim="vacuity witness (contract variant)", **NSC)


# --------------------------------------------------------------------------------------------
# constant arithmetic (C13, C19): z3 + cvc5 over constants re-extracted from the sources
for nm in ("small_packet_packed", "small_packet_single", "slice_packet", "ack_packet", "buffers"):
    L(nm, crate="-", file="-", props=["C13"], kind="smt", functions="constants of renet/src/packet.rs, renetcode/src/lib.rs, renet/src/remote_connection.rs",
      claim="size side condition over all field widths", bound="unbounded (linear integer arithmetic)")
L("no_amplification", crate="-", file="-", props=["C19"], kind="smt", functions="constants of renetcode/src/lib.rs", claim="every handshake reply is strictly smaller than the smallest datagram that can trigger it", bound="unbounded")

# --------------------------------------------------------------------------------------------
# Lemmas whose harness exists in harness/ but which are NOT claimed by any check: in the round-two verification pass they did not finish
# inside their memory / time cap on the unchanged tree, so keeping them registered would make the thorough tier inconclusive (exit 2).
UNREGISTERED = {
    "dec_total": "full-size (1400 B) decode totality: > 28 GB alone; replaced by dec_total_64 (quick) and dec_total_400 (thorough)",
    "rs_size_small_n3": "> 20 GB (reads three returned packets)",
    "parse_total_8": "renet parser over all byte strings <= 8 B: > 16 GB and not finished in 30 min",
    "parse_total_12": "as parse_total_8",
    "us_pack_small": "> 18 GB (reads the returned packet)", "us_pack_sliced": "> 18 GB (reads the returned packets)",
    "rt_renet_rev_t0": "not finished under the 16 GB cap", "rt_renet_rev_t2": "exceeded the 16 GB cap", "rt_renet_rev_t4": "exceeded the 16 GB cap",
    "rt_renet_small_rel_1": "not re-verified under the cap in round two (10-30 min each; round one ran them uncapped)",
    "rt_renet_small_rel_2": "as rt_renet_small_rel_1", "rt_renet_small_rel_empty": "as rt_renet_small_rel_1", "rt_renet_small_unrel_2": "as rt_renet_small_rel_1",
    "rt_renet_slice_rel": "as rt_renet_small_rel_1", "rt_renet_slice_unrel": "as rt_renet_small_rel_1", "rt_renet_ack_2": "as rt_renet_small_rel_1", "rt_renet_ack_3": "as rt_renet_small_rel_1",
    "rs_pack_small_n1": "not re-verified under the cap in round two (10-25 min, 20 GB each in round one)", "rs_pack_small_n2": "as rs_pack_small_n1",
    "rs_pack_sliced_n2": "as rs_pack_small_n1", "rs_pack_sliced_n3": "as rs_pack_small_n1",
}
LEMMAS[:] = [l for l in LEMMAS if l["name"] not in UNREGISTERED]

# --------------------------------------------------------------------------------------------
# per-property notes (MANIFEST level_note / evidence bounds)
_COMMON = ("one-step lemmas over symbolic inputs and symbolic pre-states (induction over histories is the argument of DESIGN.md section 4, not machine-checked); "
           "model containers with <= 2-3 live entries per map (occupancy fixed per harness instance), LenBytes/VecBytes models of bytes::Bytes, ids/sequences < 2^62, "
           "whole-second clocks; see DESIGN.md section A for what is outside each claim")
_NC = ("chacha20poly1305 primitive replaced by a recording identity cipher / ideal AEAD (crypto.rs itself is real); tamper-evidence of the primitive is trusted; "
       "datagram buffers 64..1400 B as stated per harness; packet / window / client lemmas at the real sizes; netcode SERVER step lemmas (ns_*) in the contract "
       "variant: server.rs real, its calls into packet.rs / token.rs replaced by contract functions justified by the packet lemmas, size constants shrunk, 2 slots")
for _p, _txt, _out in (
        ("C01", _COMMON, "RenetClient-level glue (sent_packets, dispatch), more than 3 slices per message, liveness composition"),
        ("C02", _COMMON, "as C01"),
        ("C03", _COMMON, "dispatch to the right channel inside RenetClient::process_packet; the wire-form lemmas that read returned packets (rs_pack_*, us_pack_*, rs_size_small_n3) are not registered (UNREGISTERED: memory), so what a packet carries is decided on the slicing / reassembly / accounting side only"),
        ("C04", _NC, "key secrecy; the primitive; server attribution is decided in the contract variant (ns_frame_connected_*)"),
        ("C05", _NC, "connect-token parsing / layout (token lemmas pruned; the repo's own token tests cover it); request and response paths are decided in the contract variant "
                     "(ns_req_guard_*, ns_resp_guard_*: thorough tier, 14-16 min each)"),
        ("C06", _COMMON, "the parser lemma (parse_total_*) needs > 16 GB / 10-30 min and is thorough-only; RenetClient::process_packet dispatch glue; server other-connection frame for packets"),
        ("C07", _NC, "token parsing (pruned); the full-size decode totality lemma dec_total is thorough-only (quick: datagrams <= 64 B); client frame conditions are thorough-only"),
        ("C08", _COMMON, "sent_packets bookkeeping and ack dispatch inside RenetClient (ack_release / sp_step / ack_emit not built); acks assumed unforgeable"),
        ("C09", _COMMON, "SLICE_SIZE literal rewritten to 8 for receive-side slice lemmas; drain composition on paper"),
        ("C10", _NC, "the table lemmas run on 2 slots; set_max_clients (F12) has no lemma"),
        ("C11", _COMMON, "only disconnect and the broadcast lemmas (send / receive / packet frame lemmas exceed memory)"),
        ("C12", _COMMON, "remove_connection / local-client events and process_packet on a disconnected client not decided (exceed memory)"),
        ("C13", _COMMON + "; " + _NC, "RenetClient serialization loop; renet packet sizes rest on the SMT side conditions over the packing constants + ack_cap_64 + ser_short_buffer (the lemmas that read returned packets are not registered: memory)"),
        ("C14", _COMMON, "budget threading ACROSS channels in RenetClient::get_packets_to_send (per-channel only)"),
        ("C15", _COMMON, "sent_packets 3 s horizon (sp_horizon not built)"),
        ("C16", _COMMON + "; " + _NC, "public connect token read/write (not registered); renet round trips: only rt_renet_small_unrel_1 (and rt_renet_ack_1 if listed) are registered, thorough-only - the other instances and the reverse round trips are UNREGISTERED (memory cap); real cipher round trip"),
        ("C17", _NC, "bit flips through the real Poly1305 (trusted primitive)"),
        ("C18", _NC, "temporal composition of the progress lemmas on paper; set_max_clients (F12)"),
        ("C19", _NC, "reply sizes at the real constants come from enc_len_* and the SMT side condition; the request / response step lemmas run at shrunk sizes"),
):
    PROPERTY_META[_p] = {"level_note": "trusted: rustc/Kani translation, CBMC 6.11 + cadical, z3/cvc5 for constant arithmetic; " + _txt + ". OUTSIDE the claim: " + _out,
                         "bounds": _txt, "outside": _out,
                         "assumptions": ["peer's renet layer is the real one for C01-C03/C08/C09/C14/C15 (hostile peers are C06)", "counters < 2^62 / 2^63", "AEAD primitive ideal",
                                         "model containers refine std on the API subset used"]}
