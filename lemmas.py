"""Registry of proof obligations: which Kani harness decides which part of which property."""

LEMMAS = []
PROPERTY_META = {}


def L(name, crate, file, props, tier="quick", variant=None, timeout=300, mem_gb=12, expect="pass", heavy=False, **kw):
    d = dict(name=name, crate=crate, file=file, props=list(props), tier=tier, variant=dict(variant or {}), timeout=timeout,
             mem_gb=mem_gb, expect=expect, heavy=heavy)
    d.update(kw)
    LEMMAS.append(d)
    return d


def lemmas_for(prop, tier):
    out = []
    for l in LEMMAS:
        if prop not in l["props"]:
            continue
        if tier == "quick" and l["tier"] != "quick":
            continue
        out.append(l)
    return out


# --------------------------------------------------------------------------------------------
# renetcode: replay window  (C04, C07)
RP = dict(crate="renetcode", file="replay_protection.rs")
L("rp_total", props=["C04", "C07"], functions="ReplayProtection::{already_received, advance_sequence}",
  claim="both operations return normally for every u64 sequence and every window contents", bound="none (all 2^64 sequences, all window contents)", **RP)
L("rp_once", props=["C04"], functions="ReplayProtection::{already_received, advance_sequence}", timeout=600,
  claim="inductive step: a sequence that is marked received stays rejected after any admitted advance", bound="sequences < 2^63; one step from an arbitrary window satisfying Inv_RP", **RP)
L("rp_complete", props=["C04"], functions="ReplayProtection::already_received",
  claim="a never-accepted sequence less than 256 behind the newest is admitted", bound="sequences < 2^63", **RP)
L("rp_old", props=["C04"], functions="ReplayProtection::already_received", claim="sequences 256 or more behind are rejected", bound="sequences < 2^63", **RP)
L("rp_init", props=["C04"], functions="ReplayProtection::new", claim="constructor state satisfies Inv_RP and admits everything", bound="none", **RP)
L("rp_witness", props=["C04", "C07"], expect="fail", functions="-", claim="vacuity witness", **RP)

# --------------------------------------------------------------------------------------------
# renetcode: packet decode / encode  (C04, C07, C13, C16, C17, C19)
PK = dict(crate="renetcode", file="packet.rs", variant={"fs": 512}, stubs="chacha20poly1305 primitive -> models/chacha.rs (identity cipher, recorded calls)")
L("dec_total", props=["C07", "C19"], functions="Packet::decode, read_sequence, decode_prefix, Packet::read, crypto::dencrypted_in_place, ReplayProtection::*",
  claim="decode returns normally for every datagram; request only from >=1078 B, response only from >=325 B",
  bound="all datagrams of every length 0..=1400 (all bytes symbolic), AEAD verdict nondeterministic", **PK)
L("dec_binding", props=["C04", "C17"], functions="Packet::decode, crypto::dencrypted_in_place, get_additional_data",
  claim="AEAD is called with (key arg, nonce=LE(seq bytes), aad=VERSION|pid|prefix, ct=bytes after header, tag=last 16 B): parsing is injective into the AEAD tuple",
  bound="all datagrams 0..=1400 B; ciphertext and tag witnessed at one symbolic offset each", **PK)
L("dec_window_order", props=["C04", "C07"], functions="Packet::decode, ReplayProtection::*",
  claim="window-rejected sequences never reach the AEAD; AEAD Err => window unchanged; AEAD Ok => exactly this sequence recorded (protected kinds only)",
  bound="all datagrams 0..=64 B (window logic is independent of body size), arbitrary window contents, sequences < 2^63, one witnessed window slot", **PK)
L("dec_witness", props=["C04", "C07", "C17", "C19"], expect="fail", functions="-", claim="vacuity witness", **PK)
for k in ("denied", "disconnect", "keepalive", "challenge", "response", "payload_a", "payload_b", "payload_c", "payload_max0", "payload_max8", "payload_over", "request"):
    L("enc_len_" + k, props=["C13", "C17", "C19"], functions="Packet::encode, write_sequence, encode_prefix, crypto::encrypt_in_place",
      claim="encode(%s) = 1+seqlen+body+16 bytes <= 1400, sealed under the given key with nonce=sequence and aad=VERSION|pid|prefix" % k,
      bound=("all u64 sequences, all keys/protocol ids/fields" if k in ("denied", "disconnect", "keepalive") else "17 class-boundary sequences (0,1,255,256,...,2^64-1: concrete offsets), all keys/protocol ids/token bytes") + {"payload_a": "; every payload length 0..=64 (128 B buffer)", "payload_b": "; every payload length 0..=64 (128 B buffer)", "payload_c": "; every payload length 0..=64 (128 B buffer)", "payload_max0": "; payload 0..=1300 into 1400 B, sequence 0, length formula only", "payload_max8": "; payload 0..=1300 into 1400 B, sequence 2^64-1, length formula only", "payload_over": "; payload 0..=1400, sequence 2^64-1"}.get(k, ""), **PK)
for k in ("denied", "disconnect", "keepalive", "challenge_a", "challenge_b", "challenge_c", "response_a", "response_b", "response_c", "payload_s0", "payload_s1", "payload_s4", "payload_s8", "payload_sizes", "request"):
    L("rt_nc_" + k, props=["C16"], functions="Packet::encode, Packet::decode, Packet::write, Packet::read",
      tier="thorough" if k in ("payload_s1", "payload_s4", "payload_sizes", "challenge_b", "response_b") else "quick", timeout=900 if k == "payload_sizes" else 400,
      claim="decode(encode(p)) == (sequence, p) for kind %s" % k.split("_")[0],
      bound=("all u64 sequences" if k in ("denied", "disconnect", "keepalive") else "class-boundary sequences (17 values, split over instances)") + ", all field values; arrays witnessed at one symbolic offset; payload lengths 0..=64; identity AEAD", **PK)
L("rt_challenge_token", props=["C16", "C05"], functions="Packet::generate_challenge, ChallengeToken::{write, read, decode}",
  claim="challenge token seals exactly (client id, user data) under the challenge key / sequence and decodes to them", bound="all ids, user data witnessed at one offset", **PK)
L("enc_witness", props=["C13", "C16"], expect="fail", functions="-", claim="vacuity witness", **PK)

# --------------------------------------------------------------------------------------------
# renet: slice constructor (C03, C06)
SC = dict(crate="renet", file="channel/slice_constructor.rs", variant={"bytes": "vec", "cap": 2, "qcap": 2})
for nm in ("n1_l1", "n2_l1", "n2_l1200", "n2_l1201", "n3_l1199", "n3_l1200", "n2_l0"):
    L("sc_hostile_" + nm, props=["C06"], functions="SliceConstructor::process_slice",
      claim="any slice index (any usize) and any received-flag state: returns normally, out-of-range index never accepted",
      bound="constructor of %s slices, payload length %s (concrete per instance), index and flags symbolic" % (nm[1], nm.split("_l")[1]), **SC)
L("sc_witness", props=["C06", "C03"], expect="fail", functions="-", claim="vacuity witness", **SC)
for nm in ("1201_0", "1201_0d", "1201_1", "1201_1d", "2400_0", "2400_0d", "2400_1", "2399_1", "2401_2", "3600_1", "3600_1d", "3600_2"):
    L("sc_step_" + nm, props=["C03", "C01", "C02"], functions="SliceConstructor::process_slice",
      tier="quick" if nm in ("1201_1", "1201_0d", "2400_0", "2400_1", "3600_1") else "thorough",
      claim="genuine slice: completes only when all slices are in, output length == |M| and output byte == M byte at every offset (witness); duplicates change nothing",
      bound="message length %s, slice index %s (concrete per instance; suffix d = last slice already received); content, other received flags, witness offset symbolic" % tuple(nm.split("_")), **SC)
L("sc_init", props=["C03"], functions="SliceConstructor::new", claim="fresh constructor satisfies its invariant", bound="3 slices", **SC)
