"""Registry of proof obligations: which Kani harness decides which part of which property."""

LEMMAS = []
PROPERTY_META = {}


def L(name, crate, file, props, tier="quick", variant=None, timeout=300, mem_gb=12, expect="pass", heavy=False, **kw):
    d = dict(name=name, crate=crate, file=file, props=list(props), tier=tier, variant=dict(variant or {}), timeout=timeout,
             mem_gb=mem_gb, expect=expect, heavy=heavy)
    d.update(kw)
    LEMMAS.append(d)
    return d


def lemmas_for(prop, tier):
    out = []
    for l in LEMMAS:
        if prop not in l["props"]:
            continue
        if tier == "quick" and l["tier"] != "quick":
            continue
        out.append(l)
    return out


# --------------------------------------------------------------------------------------------
# renetcode: replay window  (C04, C07)
RP = dict(crate="renetcode", file="replay_protection.rs")
L("rp_total", props=["C04", "C07"], functions="ReplayProtection::{already_received, advance_sequence}",
  claim="both operations return normally for every u64 sequence and every window contents", bound="none (all 2^64 sequences, all window contents)", **RP)
L("rp_once", props=["C04"], functions="ReplayProtection::{already_received, advance_sequence}", timeout=600,
  claim="inductive step: a sequence that is marked received stays rejected after any admitted advance", bound="sequences < 2^63; one step from an arbitrary window satisfying Inv_RP", **RP)
L("rp_complete", props=["C04"], functions="ReplayProtection::already_received",
  claim="a never-accepted sequence less than 256 behind the newest is admitted", bound="sequences < 2^63", **RP)
L("rp_old", props=["C04"], functions="ReplayProtection::already_received", claim="sequences 256 or more behind are rejected", bound="sequences < 2^63", **RP)
L("rp_init", props=["C04"], functions="ReplayProtection::new", claim="constructor state satisfies Inv_RP and admits everything", bound="none", **RP)
L("rp_witness", props=["C04", "C07"], expect="fail", functions="-", claim="vacuity witness", **RP)

# --------------------------------------------------------------------------------------------
# renetcode: packet decode / encode  (C04, C07, C13, C16, C17, C19)
PK = dict(crate="renetcode", file="packet.rs", variant={"fs": 512}, stubs="chacha20poly1305 primitive -> models/chacha.rs (identity cipher, recorded calls)")
L("dec_total", props=["C07", "C19"], functions="Packet::decode, read_sequence, decode_prefix, Packet::read, crypto::dencrypted_in_place, ReplayProtection::*",
  claim="decode returns normally for every datagram; request only from >=1078 B, response only from >=325 B",
  bound="all datagrams of every length 0..=1400 (all bytes symbolic), AEAD verdict nondeterministic", **PK)
L("dec_binding", props=["C04", "C17"], functions="Packet::decode, crypto::dencrypted_in_place, get_additional_data",
  claim="AEAD is called with (key arg, nonce=LE(seq bytes), aad=VERSION|pid|prefix, ct=bytes after header, tag=last 16 B): parsing is injective into the AEAD tuple",
  bound="all datagrams 0..=1400 B; ciphertext and tag witnessed at one symbolic offset each", **PK)
L("dec_window_order", props=["C04", "C07"], functions="Packet::decode, ReplayProtection::*",
  claim="window-rejected sequences never reach the AEAD; AEAD Err => window unchanged; AEAD Ok => exactly this sequence recorded (protected kinds only)",
  bound="all datagrams 0..=64 B (window logic is independent of body size), arbitrary window contents, sequences < 2^63, one witnessed window slot", **PK)
L("dec_witness", props=["C04", "C07", "C17", "C19"], expect="fail", functions="-", claim="vacuity witness", **PK)
for k in ("denied", "disconnect", "keepalive", "challenge", "response", "payload_a", "payload_b", "payload_c", "payload_max0", "payload_max8", "payload_over", "request"):
    L("enc_len_" + k, props=["C13", "C17", "C19"], functions="Packet::encode, write_sequence, encode_prefix, crypto::encrypt_in_place",
      claim="encode(%s) = 1+seqlen+body+16 bytes <= 1400, sealed under the given key with nonce=sequence and aad=VERSION|pid|prefix" % k,
      bound=("all u64 sequences, all keys/protocol ids/fields" if k in ("denied", "disconnect", "keepalive") else "17 class-boundary sequences (0,1,255,256,...,2^64-1: concrete offsets), all keys/protocol ids/token bytes") + {"payload_a": "; every payload length 0..=64 (128 B buffer)", "payload_b": "; every payload length 0..=64 (128 B buffer)", "payload_c": "; every payload length 0..=64 (128 B buffer)", "payload_max0": "; payload 0..=1300 into 1400 B, sequence 0, length formula only", "payload_max8": "; payload 0..=1300 into 1400 B, sequence 2^64-1, length formula only", "payload_over": "; payload 0..=1400, sequence 2^64-1"}.get(k, ""), **PK)
for k in ("denied", "disconnect", "keepalive", "challenge_a", "challenge_b", "challenge_c", "response_a", "response_b", "response_c", "payload_s0", "payload_s1", "payload_s4", "payload_s8", "payload_sizes", "request"):
    L("rt_nc_" + k, props=["C16"], functions="Packet::encode, Packet::decode, Packet::write, Packet::read",
      tier="thorough" if k in ("payload_s1", "payload_s4", "payload_sizes", "challenge_b", "response_b") else "quick", timeout=900 if k == "payload_sizes" else 400,
      claim="decode(encode(p)) == (sequence, p) for kind %s" % k.split("_")[0],
      bound=("all u64 sequences" if k in ("denied", "disconnect", "keepalive") else "class-boundary sequences (17 values, split over instances)") + ", all field values; arrays witnessed at one symbolic offset; payload lengths 0..=64; identity AEAD", **PK)
L("rt_challenge_token", props=["C16", "C05"], functions="Packet::generate_challenge, ChallengeToken::{write, read, decode}",
  claim="challenge token seals exactly (client id, user data) under the challenge key / sequence and decodes to them", bound="all ids, user data witnessed at one offset", **PK)
L("enc_witness", props=["C13", "C16"], expect="fail", functions="-", claim="vacuity witness", **PK)

# --------------------------------------------------------------------------------------------
# renet: slice constructor (C03, C06)
SC = dict(crate="renet", file="channel/slice_constructor.rs", variant={"bytes": "vec", "cap": 2, "qcap": 2})
for nm in ("n1_l1", "n2_l1", "n2_l1200", "n2_l1201", "n3_l1199", "n3_l1200", "n2_l0"):
    L("sc_hostile_" + nm, props=["C06"], functions="SliceConstructor::process_slice",
      claim="any slice index (any usize) and any received-flag state: returns normally, out-of-range index never accepted",
      bound="constructor of %s slices, payload length %s (concrete per instance), index and flags symbolic" % (nm[1], nm.split("_l")[1]), **SC)
L("sc_witness", props=["C06", "C03"], expect="fail", functions="-", claim="vacuity witness", **SC)
for nm in ("1201_0", "1201_0d", "1201_1", "1201_1d", "2400_0", "2400_0d", "2400_1", "2399_1", "2401_2", "3600_1", "3600_1d", "3600_2"):
    L("sc_step_" + nm, props=["C03", "C01", "C02"], functions="SliceConstructor::process_slice",
      tier="quick" if nm in ("1201_1", "1201_0d", "2400_0", "2400_1", "3600_1") else "thorough",
      claim="genuine slice: completes only when all slices are in, output length == |M| and output byte == M byte at every offset (witness); duplicates change nothing",
      bound="message length %s, slice index %s (concrete per instance; suffix d = last slice already received); content, other received flags, witness offset symbolic" % tuple(nm.split("_")), **SC)
L("sc_init", props=["C03"], functions="SliceConstructor::new", claim="fresh constructor satisfies its invariant", bound="3 slices", **SC)

# --------------------------------------------------------------------------------------------
# renet: reliable channel, receive side (C01, C02, C06, C09)
RR = dict(crate="renet", file="channel/reliable.rs")
V2 = {"bytes": "len", "cap": 2, "qcap": 2}
V3 = {"bytes": "len", "cap": 3, "qcap": 3}
V2S = {"bytes": "len", "cap": 2, "qcap": 2, "slice_size": 8}
for nm, props, v, tier in (
        ("rr_msg_ord_m0", ["C01", "C06", "C09"], V2, "quick"), ("rr_msg_ord_m1", ["C01", "C06", "C09"], V2, "quick"),
        ("rr_msg_ord_m1c", ["C01", "C09"], V2, "thorough"), ("rr_msg_ord_m2", ["C01", "C09"], V3, "thorough"),
        ("rr_msg_unord_m0", ["C02", "C06", "C09"], V2, "quick"), ("rr_msg_unord_m1", ["C02", "C06", "C09"], V2, "quick"),
        ("rr_msg_unord_m1c", ["C02", "C09"], V2, "thorough"), ("rr_msg_unord_m2", ["C02", "C09"], V3, "thorough")):
    L(nm, props=props, variant=v, tier=tier, functions="ReceiveChannelReliable::process_message",
      claim="one arrival from an arbitrary state: buffered exactly once with its own content unless duplicate/old (then nothing changes) or over budget (error, nothing changes); "
            "cursor unchanged; accounting == recomputed sum <= max; Inv_LF kept",
      bound="occupancy fixed per instance (%s); ids < 2^62, lengths <= 4000, max <= 2^40, all symbolic" % nm.split("_")[-1], **RR)
for nm, props, v, tier in (
        ("rr_recv_ord_m1", ["C01", "C09"], V2, "quick"), ("rr_recv_ord_m2", ["C01", "C09"], V2, "quick"), ("rr_recv_ord_m1c", ["C01", "C09"], V2, "thorough"),
        ("rr_recv_unord_m0", ["C02"], V2, "thorough"), ("rr_recv_unord_m1", ["C02", "C09"], V2, "quick"), ("rr_recv_unord_m1s2", ["C02", "C09"], V2, "quick"),
        ("rr_recv_unord_m2", ["C02", "C09"], V2, "quick"), ("rr_recv_unord_m1c", ["C02", "C09"], V2, "thorough")):
    L(nm, props=props, variant=v, tier=tier, functions="ReceiveChannelReliable::receive_message",
      claim=("ordered: delivers exactly the message buffered for the cursor id, cursor+1, else None and nothing changes" if "_ord_" in nm else
             "unordered: delivers the smallest buffered id without waiting, the id stays seen, seen() is monotone, cursor skips only seen ids") +
            "; accounting and Inv_LF kept; other buffered messages untouched (witness id)",
      bound="occupancy fixed per instance (%s); ids, lengths, cursor symbolic" % nm.split("_")[-1], **RR)
for nm, props, tier in (
        ("rr_slice_ord_i0", ["C01", "C06", "C09"], "thorough"), ("rr_slice_ord_i0_done", ["C01", "C03", "C06", "C09"], "quick"),
        ("rr_slice_ord_i1", ["C01", "C03", "C06", "C09"], "quick"), ("rr_slice_ord_i1_full", ["C06", "C09"], "thorough"),
        ("rr_slice_ord_i1_dup", ["C01", "C06", "C09"], "thorough"), ("rr_slice_ord_oob", ["C06"], "quick"),
        ("rr_slice_unord_i0_done", ["C02", "C03", "C06", "C09"], "quick"), ("rr_slice_unord_i1", ["C02", "C06", "C09"], "thorough"),
        ("rr_slice_unord_oob", ["C06"], "thorough"),
        ("rr_slice_ord_other", ["C01", "C06", "C09"], "quick"), ("rr_slice_unord_other", ["C02", "C06", "C09"], "quick"),
        ("rr_slice_unord_other_s2", ["C02", "C09"], "thorough")):
    L(nm, props=props, variant=V2S, tier=tier, timeout=600, mem_gb=16,
      functions="ReceiveChannelReliable::process_slice, SliceConstructor::process_slice, ReceiveChannelReliable::process_message",
      claim="ANY V-valid slice on a state with one buffered message and one live 2-slice constructor: returns; a slice of an assembled/consumed message changes nothing; "
            "a genuine slice buffers or completes with exact accounting; a slice whose num_slices contradicts the constructor cannot wrap the accounting; "
            "accounting == recomputed sum <= max; Inv_LF kept",
      bound="1 buffered message, 1 live constructor (2 slices); instance fixes: order mode, payload length, last-slice-present flag, index class (0 / 1 / any >= 2), "
            "same-id (num_slices arbitrary 1..10^6) or other-id (num_slices 2); SLICE_SIZE literal rewritten 1200 -> 8 in the staged copy (channel code is parametric in it)", **RR)
L("rr_init", props=["C01", "C02", "C09"], variant=V2, functions="ReceiveChannelReliable::new", claim="fresh channel: empty, cursor 0, invariants hold", bound="none", **RR)
L("rr_witness", props=["C01", "C02", "C09", "C06"], variant=V2, expect="fail", functions="-", claim="vacuity witness", **RR)

# renet: reliable channel, send side (C01-C03, C08, C09, C13, C14, C15)
for nm in ("rs_send_n0", "rs_send_n1"):
    L(nm, props=["C01", "C02", "C03", "C09"], variant=V2, functions="SendChannelReliable::{send_message, can_send_message, available_memory}, UnackedMessage::new_sliced",
      claim="send refuses iff mem+len > max (nothing changes) else assigns the next id exactly once, mem += len, stores Small iff len <= 1200 else Sliced with ceil(len/1200) slices",
      bound="%s queued messages; len <= 4000, ids < 2^62, max <= 2^40 symbolic" % nm[-1], **RR)
for nm, tier in (("rs_gps_small_n1", "quick"), ("rs_gps_small_n2", "quick")):
    L(nm, props=["C14", "C15", "C08"], variant=V2, tier=tier, timeout=600,
      functions="SendChannelReliable::get_packets_to_send (small messages)",
      claim="budget deducted == bytes of the messages emitted, threaded in id order; a message is emitted iff due (never sent or now-last >= resend) and avail >= len; "
            "timer refreshed iff emitted, untouched otherwise; nothing released; sequence advances once per packet; no packet when nothing is due/affordable",
      bound="%s queued small messages (occupancy fixed), lengths 0..=1200, ids/sequence < 2^62, whole-second clock/resend, budget symbolic" % nm[-1], **RR)
for nm, tier in (("rs_pack_small_n1", "thorough"), ("rs_pack_small_n2", "thorough")):
    L(nm, props=["C03", "C13"], variant=V2, tier=tier, timeout=1500, mem_gb=20, heavy=True,
      functions="SendChannelReliable::get_packets_to_send (packing of small messages)",
      claim="every queued message is listed exactly once, in order, with its own id and bytes; packets carry consecutive sequences; every packet serializes to <= 1300 B across all varint width classes",
      bound="%s queued small messages, timers None and budget unlimited (concrete), ids/lengths/sequence symbolic; packets read back at concrete indices" % nm[-1], **RR)
for nm, tier in (("rs_gps_sliced_n2", "quick"), ("rs_gps_sliced_n3", "quick")):
    L(nm, props=["C14", "C15"], variant=V2, tier=tier, timeout=600,
      functions="SendChannelReliable::get_packets_to_send (sliced message)",
      claim="slice i is emitted iff unacked, due and >= 1200 bytes of budget remain at its turn (round robin from next_slice_to_send); budget deducted == payload bytes; "
            "acked slices never re-emitted; timers refreshed iff emitted; one packet per emitted slice",
      bound="one sliced message of %s slices, length symbolic in its class; ack flags, timers, start index, budget, clock symbolic" % nm[-1], **RR)
for nm, tier in (("rs_pack_sliced_n2", "thorough"), ("rs_pack_sliced_n3", "thorough")):
    L(nm, props=["C03", "C13"], variant=V2, tier=tier, timeout=1500, mem_gb=20, heavy=True,
      functions="SendChannelReliable::get_packets_to_send (slicing plan on the wire)",
      claim="a fresh sliced message yields exactly num_slices packets, slice i = bytes [1200 i, min(1200(i+1), len)) with num_slices = ceil(len/1200), each index once, each packet <= 1300 B",
      bound="one sliced message of %s slices, nothing acked, timers None, budget unlimited (concrete); id, length, sequence symbolic" % nm[-1], **RR)
L("rs_ack_small", props=["C08", "C09", "C15"], variant=V2, functions="SendChannelReliable::process_message_ack",
  claim="ack(id) releases exactly that message and returns its bytes once; unknown/duplicate ack changes nothing (so it is never emitted again: rs_gps_* only visit queued entries)",
  bound="2 queued small messages, ids/lengths symbolic", **RR)
for nm, tier in (("rs_ack_slice_n2", "quick"), ("rs_ack_slice_n3", "thorough")):
    L(nm, props=["C08", "C09", "C15"], variant=V2, tier=tier, functions="SendChannelReliable::process_slice_message_ack",
      claim="a sliced message is released (bytes returned once) exactly when every slice index has been acknowledged; duplicate/foreign acks change nothing",
      bound="one sliced message of %s slices, ack flags symbolic, slice index < num_slices (Inv_SP)" % nm[-1], **RR)
L("rs_init", props=["C09", "C14"], variant=V2, functions="SendChannelReliable::new", claim="fresh channel empty; get_packets_to_send on empty returns nothing and leaves budget/sequence", bound="none", **RR)
L("rs_witness", props=["C03", "C08", "C13", "C14", "C15"], variant=V2, expect="fail", functions="-", claim="vacuity witness", **RR)
