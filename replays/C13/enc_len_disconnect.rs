// replay for property C13, harness enc_len_disconnect (renetcode/packet.rs)
// failed checks:
//   encoded length formula  in packet::verif_kani::enc_checks (/var/tmp/verif-work/C13-17833/g0_renetcode/renetcode/src/verif_kani_packet.rs:231)
// native replay: /var/tmp/verif-work/C13-17833/g0_renetcode/renetcode/src/verif_kani_packet.rs:231:13: :: encoded length formula
// re-run:  ./check C13 --replay /verif/replays/C13/enc_len_disconnect.rs
//@harness enc_len_disconnect

/// Test generated for harness `packet::verif_kani::enc_len_disconnect` 
///
/// Check for `cover`: "8-byte sequence"

#[test]
fn kani_concrete_playback_enc_len_disconnect_9544825218998692853() {
    let concrete_vals: Vec<Vec<u8>> = vec![
        // 72340172838076673ul
        vec![1, 1, 1, 1, 1, 1, 1, 1],
        // 255
        vec![255],
        // 255
        vec![255],
        // 255
        vec![255],
        // 255
        vec![255],
        // 255
        vec![255],
        // 255
        vec![255],
        // 255
        vec![255],
        // 255
        vec![255],
        // 255
        vec![255],
        // 255
        vec![255],
        // 255
        vec![255],
        // 255
        vec![255],
        // 255
        vec![255],
        // 255
        vec![255],
        // 255
        vec![255],
        // 255
        vec![255],
        // 255
        vec![255],
        // 255
        vec![255],
        // 255
        vec![255],
        // 255
        vec![255],
        // 255
        vec![255],
        // 255
        vec![255],
        // 255
        vec![255],
        // 255
        vec![255],
        // 255
        vec![255],
        // 255
        vec![255],
        // 255
        vec![255],
        // 64
        vec![64],
        // 31
        vec![31],
        // 23
        vec![23],
        // 23
        vec![23],
        // 26
        vec![26],
        // 1879996757526511615ul
        vec![255, 255, 64, 31, 23, 23, 23, 26],
    ];
    kani::concrete_playback_run(concrete_vals, enc_len_disconnect);
}


/// Test generated for harness `packet::verif_kani::enc_len_disconnect` 
///
/// Check for `assertion`: ""encoded length formula""

#[test]
fn kani_concrete_playback_enc_len_disconnect_12503737825664382746() {
    let concrete_vals: Vec<Vec<u8>> = vec![
        // 0ul
        vec![0, 0, 0, 0, 0, 0, 0, 0],
        // 0
        vec![0],
        // 0
        vec![0],
        // 0
        vec![0],
        // 0
        vec![0],
        // 0
        vec![0],
        // 0
        vec![0],
        // 0
        vec![0],
        // 0
        vec![0],
        // 0
        vec![0],
        // 0
        vec![0],
        // 0
        vec![0],
        // 0
        vec![0],
        // 0
        vec![0],
        // 0
        vec![0],
        // 0
        vec![0],
        // 0
        vec![0],
        // 0
        vec![0],
        // 0
        vec![0],
        // 0
        vec![0],
        // 0
        vec![0],
        // 0
        vec![0],
        // 0
        vec![0],
        // 0
        vec![0],
        // 0
        vec![0],
        // 0
        vec![0],
        // 0
        vec![0],
        // 0
        vec![0],
        // 0
        vec![0],
        // 0
        vec![0],
        // 0
        vec![0],
        // 0
        vec![0],
        // 0
        vec![0],
        // 0ul
        vec![0, 0, 0, 0, 0, 0, 0, 0],
    ];
    kani::concrete_playback_run(concrete_vals, enc_len_disconnect);
}

