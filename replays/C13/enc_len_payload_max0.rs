// replay for property C13, harness enc_len_payload_max0 (renetcode/packet.rs)
// failed checks (confirmed by a second solver run; no native playback test could be generated):
//   assertion failed: * m == 1 + seq_bytes(seq) + n + 16 && * m <= NETCODE_MAX_PACKET_BYTES  in packet::verif_kani::enc_len_payload_max0 (/var/tmp/verif-work/C13-17833/g0_renetcode/renetcode/src/verif_kani_packet.rs:324)
// re-run:  ./check C13 --replay /verif/replays/C13/enc_len_payload_max0.rs
//@harness enc_len_payload_max0
//@solver-rerun
