// replay for property C13, harness enc_len_keepalive (renetcode/packet.rs)
// failed checks:
//   encoded length formula  in packet::verif_kani::enc_checks (/var/tmp/verif-work/C13-17833/g0_renetcode/renetcode/src/verif_kani_packet.rs:231)
// native replay: /var/tmp/verif-work/C13-17833/g0_renetcode/renetcode/src/verif_kani_packet.rs:231:13: :: encoded length formula
// re-run:  ./check C13 --replay /verif/replays/C13/enc_len_keepalive.rs
//@harness enc_len_keepalive

/// Test generated for harness `packet::verif_kani::enc_len_keepalive` 
///
/// Check for `cover`: "8-byte sequence"

#[test]
fn kani_concrete_playback_enc_len_keepalive_7170168399882300032() {
    let concrete_vals: Vec<Vec<u8>> = vec![
        // 72058695697039360ul
        vec![0, 0, 0, 128, 0, 1, 0, 1],
        // 0
        vec![0],
        // 0
        vec![0],
        // 0
        vec![0],
        // 0
        vec![0],
        // 0
        vec![0],
        // 0
        vec![0],
        // 0
        vec![0],
        // 0
        vec![0],
        // 0
        vec![0],
        // 0
        vec![0],
        // 0
        vec![0],
        // 0
        vec![0],
        // 0
        vec![0],
        // 0
        vec![0],
        // 0
        vec![0],
        // 0
        vec![0],
        // 0
        vec![0],
        // 0
        vec![0],
        // 0
        vec![0],
        // 0
        vec![0],
        // 0
        vec![0],
        // 0
        vec![0],
        // 0
        vec![0],
        // 0
        vec![0],
        // 0
        vec![0],
        // 0
        vec![0],
        // 0
        vec![0],
        // 0
        vec![0],
        // 0
        vec![0],
        // 0
        vec![0],
        // 0
        vec![0],
        // 0
        vec![0],
        // 1175158718065541209ul
        vec![89, 0, 0, 185, 160, 0, 79, 16],
        // 0
        vec![0, 0, 0, 0],
        // 0
        vec![0, 0, 0, 0],
    ];
    kani::concrete_playback_run(concrete_vals, enc_len_keepalive);
}


/// Test generated for harness `packet::verif_kani::enc_len_keepalive` 
///
/// Check for `assertion`: ""encoded length formula""

#[test]
fn kani_concrete_playback_enc_len_keepalive_11132702820409453774() {
    let concrete_vals: Vec<Vec<u8>> = vec![
        // 0ul
        vec![0, 0, 0, 0, 0, 0, 0, 0],
        // 0
        vec![0],
        // 0
        vec![0],
        // 0
        vec![0],
        // 0
        vec![0],
        // 0
        vec![0],
        // 0
        vec![0],
        // 0
        vec![0],
        // 0
        vec![0],
        // 0
        vec![0],
        // 0
        vec![0],
        // 0
        vec![0],
        // 0
        vec![0],
        // 0
        vec![0],
        // 0
        vec![0],
        // 0
        vec![0],
        // 0
        vec![0],
        // 0
        vec![0],
        // 0
        vec![0],
        // 0
        vec![0],
        // 0
        vec![0],
        // 0
        vec![0],
        // 0
        vec![0],
        // 0
        vec![0],
        // 0
        vec![0],
        // 0
        vec![0],
        // 0
        vec![0],
        // 0
        vec![0],
        // 0
        vec![0],
        // 0
        vec![0],
        // 0
        vec![0],
        // 0
        vec![0],
        // 0
        vec![0],
        // 0ul
        vec![0, 0, 0, 0, 0, 0, 0, 0],
        // 0
        vec![0, 0, 0, 0],
        // 0
        vec![0, 0, 0, 0],
    ];
    kani::concrete_playback_run(concrete_vals, enc_len_keepalive);
}

