// replay for property C14, harness us_gps_n2 (renet/channel/unreliable.rs)
// failed checks (confirmed by a second solver run; no native playback test could be generated):
//   budget: bytes deducted != bytes of the messages that fitted  in channel::unreliable::verif_kani::us_gps_n2 (/var/tmp/verif-work/C14-23432/g0_renet/renet/src/channel/verif_kani_channel_unreliable.rs:138)
// re-run:  ./check C14 --replay /verif/replays/C14/us_gps_n2.rs
//@harness us_gps_n2
//@solver-rerun
