// replay for property C07, harness srv_req_unauth (renetcode/server.rs)
// failed checks (confirmed by a second solver run; no native playback test could be generated):
//   unauthentic request registered a token entry (can lock the genuine owner out)  in server::verif_kani::srv_req_unauth (/var/tmp/verif-work/C07-14401/g0_renetcode/renetcode/src/verif_kani_server.rs:539)
// re-run:  ./check C07 --replay /verif/replays/C07/srv_req_unauth.rs
//@harness srv_req_unauth
//@solver-rerun
