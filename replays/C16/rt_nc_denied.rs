// replay for property C16, harness rt_nc_denied (renetcode/packet.rs)
// failed checks:
//   decode of an encoded packet failed  in packet::verif_kani::rt_nc_denied (/var/tmp/verif-work/C16-14875/g0_renetcode/renetcode/src/verif_kani_packet.rs:388)
// native replay: /var/tmp/verif-work/C16-14875/g0_renetcode/renetcode/src/verif_kani_packet.rs:388:1: :: decode of an encoded packet failed
// re-run:  ./check C16 --replay /verif/replays/C16/rt_nc_denied.rs
//@harness rt_nc_denied

/// Test generated for harness `packet::verif_kani::rt_nc_denied` 
///
/// Check for `assertion`: ""decode of an encoded packet failed""

#[test]
fn kani_concrete_playback_rt_nc_denied_6450551262810358724() {
    let concrete_vals: Vec<Vec<u8>> = vec![
        // 0ul
        vec![0, 0, 0, 0, 0, 0, 0, 0],
        // 0
        vec![0],
        // 0
        vec![0],
        // 0
        vec![0],
        // 0
        vec![0],
        // 0
        vec![0],
        // 0
        vec![0],
        // 0
        vec![0],
        // 0
        vec![0],
        // 0
        vec![0],
        // 0
        vec![0],
        // 0
        vec![0],
        // 0
        vec![0],
        // 0
        vec![0],
        // 0
        vec![0],
        // 0
        vec![0],
        // 0
        vec![0],
        // 0
        vec![0],
        // 0
        vec![0],
        // 0
        vec![0],
        // 0
        vec![0],
        // 0
        vec![0],
        // 0
        vec![0],
        // 0
        vec![0],
        // 0
        vec![0],
        // 0
        vec![0],
        // 0
        vec![0],
        // 0
        vec![0],
        // 0
        vec![0],
        // 0
        vec![0],
        // 0
        vec![0],
        // 0
        vec![0],
        // 0
        vec![0],
        // 0ul
        vec![0, 0, 0, 0, 0, 0, 0, 0],
    ];
    kani::concrete_playback_run(concrete_vals, rt_nc_denied);
}


/// Test generated for harness `packet::verif_kani::rt_nc_denied` 
///
/// Check for `cover`: "8-byte sequence"

#[test]
fn kani_concrete_playback_rt_nc_denied_14943050655264713152() {
    let concrete_vals: Vec<Vec<u8>> = vec![
        // 18446744073709551615ul
        vec![255, 255, 255, 255, 255, 255, 255, 255],
        // 255
        vec![255],
        // 255
        vec![255],
        // 255
        vec![255],
        // 255
        vec![255],
        // 255
        vec![255],
        // 255
        vec![255],
        // 255
        vec![255],
        // 255
        vec![255],
        // 255
        vec![255],
        // 255
        vec![255],
        // 255
        vec![255],
        // 255
        vec![255],
        // 255
        vec![255],
        // 255
        vec![255],
        // 255
        vec![255],
        // 255
        vec![255],
        // 255
        vec![255],
        // 255
        vec![255],
        // 255
        vec![255],
        // 255
        vec![255],
        // 255
        vec![255],
        // 255
        vec![255],
        // 255
        vec![255],
        // 255
        vec![255],
        // 255
        vec![255],
        // 255
        vec![255],
        // 255
        vec![255],
        // 255
        vec![255],
        // 255
        vec![255],
        // 255
        vec![255],
        // 255
        vec![255],
        // 255
        vec![255],
        // 18446744073709551615ul
        vec![255, 255, 255, 255, 255, 255, 255, 255],
    ];
    kani::concrete_playback_run(concrete_vals, rt_nc_denied);
}


/// Test generated for harness `packet::verif_kani::rt_nc_denied` 
///
/// Check for `cover`: "3-byte sequence"

#[test]
fn kani_concrete_playback_rt_nc_denied_4697415203989383165() {
    let concrete_vals: Vec<Vec<u8>> = vec![
        // 65794ul
        vec![2, 1, 1, 0, 0, 0, 0, 0],
        // 255
        vec![255],
        // 255
        vec![255],
        // 255
        vec![255],
        // 255
        vec![255],
        // 255
        vec![255],
        // 255
        vec![255],
        // 255
        vec![255],
        // 255
        vec![255],
        // 255
        vec![255],
        // 255
        vec![255],
        // 255
        vec![255],
        // 255
        vec![255],
        // 255
        vec![255],
        // 255
        vec![255],
        // 255
        vec![255],
        // 255
        vec![255],
        // 255
        vec![255],
        // 255
        vec![255],
        // 255
        vec![255],
        // 255
        vec![255],
        // 255
        vec![255],
        // 255
        vec![255],
        // 255
        vec![255],
        // 255
        vec![255],
        // 255
        vec![255],
        // 255
        vec![255],
        // 255
        vec![255],
        // 255
        vec![255],
        // 255
        vec![255],
        // 255
        vec![255],
        // 255
        vec![255],
        // 255
        vec![255],
        // 18446744073709551615ul
        vec![255, 255, 255, 255, 255, 255, 255, 255],
    ];
    kani::concrete_playback_run(concrete_vals, rt_nc_denied);
}

