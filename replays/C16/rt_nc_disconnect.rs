// replay for property C16, harness rt_nc_disconnect (renetcode/packet.rs)
// failed checks:
//   decode of an encoded packet failed  in packet::verif_kani::rt_nc_disconnect (/var/tmp/verif-work/C16-14875/g0_renetcode/renetcode/src/verif_kani_packet.rs:389)
// native replay: /var/tmp/verif-work/C16-14875/g0_renetcode/renetcode/src/verif_kani_packet.rs:389:1: :: decode of an encoded packet failed
// re-run:  ./check C16 --replay /verif/replays/C16/rt_nc_disconnect.rs
//@harness rt_nc_disconnect

/// Test generated for harness `packet::verif_kani::rt_nc_disconnect` 
///
/// Check for `assertion`: ""decode of an encoded packet failed""

#[test]
fn kani_concrete_playback_rt_nc_disconnect_10422829293791308440() {
    let concrete_vals: Vec<Vec<u8>> = vec![
        // 0ul
        vec![0, 0, 0, 0, 0, 0, 0, 0],
        // 0
        vec![0],
        // 0
        vec![0],
        // 0
        vec![0],
        // 0
        vec![0],
        // 0
        vec![0],
        // 0
        vec![0],
        // 0
        vec![0],
        // 0
        vec![0],
        // 0
        vec![0],
        // 0
        vec![0],
        // 0
        vec![0],
        // 0
        vec![0],
        // 0
        vec![0],
        // 0
        vec![0],
        // 0
        vec![0],
        // 0
        vec![0],
        // 0
        vec![0],
        // 0
        vec![0],
        // 0
        vec![0],
        // 0
        vec![0],
        // 0
        vec![0],
        // 0
        vec![0],
        // 0
        vec![0],
        // 0
        vec![0],
        // 0
        vec![0],
        // 0
        vec![0],
        // 0
        vec![0],
        // 0
        vec![0],
        // 0
        vec![0],
        // 0
        vec![0],
        // 0
        vec![0],
        // 0
        vec![0],
        // 0ul
        vec![0, 0, 0, 0, 0, 0, 0, 0],
    ];
    kani::concrete_playback_run(concrete_vals, rt_nc_disconnect);
}


/// Test generated for harness `packet::verif_kani::rt_nc_disconnect` 
///
/// Check for `cover`: "8-byte sequence"

#[test]
fn kani_concrete_playback_rt_nc_disconnect_8057870373268455938() {
    let concrete_vals: Vec<Vec<u8>> = vec![
        // 18446744073709551615ul
        vec![255, 255, 255, 255, 255, 255, 255, 255],
        // 255
        vec![255],
        // 255
        vec![255],
        // 255
        vec![255],
        // 255
        vec![255],
        // 255
        vec![255],
        // 255
        vec![255],
        // 255
        vec![255],
        // 255
        vec![255],
        // 255
        vec![255],
        // 255
        vec![255],
        // 255
        vec![255],
        // 255
        vec![255],
        // 255
        vec![255],
        // 255
        vec![255],
        // 255
        vec![255],
        // 255
        vec![255],
        // 255
        vec![255],
        // 255
        vec![255],
        // 255
        vec![255],
        // 255
        vec![255],
        // 255
        vec![255],
        // 255
        vec![255],
        // 255
        vec![255],
        // 255
        vec![255],
        // 255
        vec![255],
        // 255
        vec![255],
        // 255
        vec![255],
        // 255
        vec![255],
        // 255
        vec![255],
        // 255
        vec![255],
        // 255
        vec![255],
        // 255
        vec![255],
        // 18446744073709551615ul
        vec![255, 255, 255, 255, 255, 255, 255, 255],
    ];
    kani::concrete_playback_run(concrete_vals, rt_nc_disconnect);
}


/// Test generated for harness `packet::verif_kani::rt_nc_disconnect` 
///
/// Check for `cover`: "3-byte sequence"

#[test]
fn kani_concrete_playback_rt_nc_disconnect_13811728203813813621() {
    let concrete_vals: Vec<Vec<u8>> = vec![
        // 65919ul
        vec![127, 1, 1, 0, 0, 0, 0, 0],
        // 255
        vec![255],
        // 255
        vec![255],
        // 255
        vec![255],
        // 255
        vec![255],
        // 255
        vec![255],
        // 255
        vec![255],
        // 255
        vec![255],
        // 255
        vec![255],
        // 255
        vec![255],
        // 255
        vec![255],
        // 255
        vec![255],
        // 255
        vec![255],
        // 255
        vec![255],
        // 255
        vec![255],
        // 255
        vec![255],
        // 255
        vec![255],
        // 255
        vec![255],
        // 255
        vec![255],
        // 255
        vec![255],
        // 255
        vec![255],
        // 255
        vec![255],
        // 255
        vec![255],
        // 255
        vec![255],
        // 255
        vec![255],
        // 255
        vec![255],
        // 255
        vec![255],
        // 255
        vec![255],
        // 255
        vec![255],
        // 255
        vec![255],
        // 255
        vec![255],
        // 255
        vec![255],
        // 255
        vec![255],
        // 18446744073709551615ul
        vec![255, 255, 255, 255, 255, 255, 255, 255],
    ];
    kani::concrete_playback_run(concrete_vals, rt_nc_disconnect);
}

