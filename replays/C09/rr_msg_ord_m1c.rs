// replay for property C09, harness rr_msg_ord_m1c (renet/channel/reliable.rs)
// failed checks:
//   Inv_LF  in channel::reliable::verif_kani::rr_msg_ord_m1c (/var/tmp/verif-work/C09-9578/g0_renet/renet/src/channel/verif_kani_channel_reliable.rs:271)
// native replay: /var/tmp/verif-work/C09-9578/g0_renet/renet/src/channel/verif_kani_channel_reliable.rs:271:1: :: Inv_LF
// re-run:  ./check C09 --replay /verif/replays/C09/rr_msg_ord_m1c.rs
//@harness rr_msg_ord_m1c

/// Test generated for harness `channel::reliable::verif_kani::rr_msg_ord_m1c` 
///
/// Check for `assertion`: ""Inv_LF""

#[test]
fn kani_concrete_playback_rr_msg_ord_m1c_9555214721753109656() {
    let concrete_vals: Vec<Vec<u8>> = vec![
        // 0ul
        vec![0, 0, 0, 0, 0, 0, 0, 0],
        // 4035225266123964415ul
        vec![255, 255, 255, 255, 255, 255, 255, 55],
        // 1983ul
        vec![191, 7, 0, 0, 0, 0, 0, 0],
        // 2147483651
        vec![3, 0, 0, 128],
        // 4611686018427387902ul
        vec![254, 255, 255, 255, 255, 255, 255, 63],
        // 0
        vec![0],
        // 1
        vec![1],
        // 6911ul
        vec![255, 26, 0, 0, 0, 0, 0, 0],
        // 4611686018427387902ul
        vec![254, 255, 255, 255, 255, 255, 255, 63],
        // 2473ul
        vec![169, 9, 0, 0, 0, 0, 0, 0],
        // 4294967295
        vec![255, 255, 255, 255],
        // 4035225266123964415ul
        vec![255, 255, 255, 255, 255, 255, 255, 55],
    ];
    kani::concrete_playback_run(concrete_vals, rr_msg_ord_m1c);
}


/// Test generated for harness `channel::reliable::verif_kani::rr_msg_ord_m1c` 
///
/// Check for `cover`: "new message buffered"

#[test]
fn kani_concrete_playback_rr_msg_ord_m1c_13197259966794526395() {
    let concrete_vals: Vec<Vec<u8>> = vec![
        // 1981583836043018235ul
        vec![251, 255, 255, 255, 255, 255, 127, 27],
        // 3134505340649865215ul
        vec![255, 255, 255, 255, 255, 255, 127, 43],
        // 2871ul
        vec![55, 11, 0, 0, 0, 0, 0, 0],
        // 2147483647
        vec![255, 255, 255, 127],
        // 4611686018427387903ul
        vec![255, 255, 255, 255, 255, 255, 255, 63],
        // 0
        vec![0],
        // 1
        vec![1],
        // 5279ul
        vec![159, 20, 0, 0, 0, 0, 0, 0],
        // 4287426845256712191ul
        vec![255, 255, 255, 255, 255, 255, 127, 59],
        // 0ul
        vec![0, 0, 0, 0, 0, 0, 0, 0],
        // 4294967295
        vec![255, 255, 255, 255],
        // 3134505340649865215ul
        vec![255, 255, 255, 255, 255, 255, 127, 43],
    ];
    kani::concrete_playback_run(concrete_vals, rr_msg_ord_m1c);
}


/// Test generated for harness `channel::reliable::verif_kani::rr_msg_ord_m1c` 
///
/// Check for `cover`: "budget exhausted"

#[test]
fn kani_concrete_playback_rr_msg_ord_m1c_14406354189219680029() {
    let concrete_vals: Vec<Vec<u8>> = vec![
        // 35184372088828ul
        vec![252, 255, 255, 255, 255, 31, 0, 0],
        // 3488952705072758764ul
        vec![236, 255, 255, 255, 255, 63, 107, 48],
        // 3531ul
        vec![203, 13, 0, 0, 0, 0, 0, 0],
        // 3
        vec![3, 0, 0, 0],
        // 4611686018427387903ul
        vec![255, 255, 255, 255, 255, 255, 255, 63],
        // 0
        vec![0],
        // 1
        vec![1],
        // 8204ul
        vec![12, 32, 0, 0, 0, 0, 0, 0],
        // 2305068953027739646ul
        vec![254, 255, 255, 255, 255, 63, 253, 31],
        // 3498ul
        vec![170, 13, 0, 0, 0, 0, 0, 0],
        // 4294967295
        vec![255, 255, 255, 255],
        // 3488952705072758764ul
        vec![236, 255, 255, 255, 255, 63, 107, 48],
    ];
    kani::concrete_playback_run(concrete_vals, rr_msg_ord_m1c);
}

