// replay for property C15, harness rs_gps_sliced_n2 (renet/channel/reliable.rs)
// failed checks (confirmed by a second solver run; no native playback test could be generated):
//   budget: bytes deducted != payload bytes emitted  in channel::reliable::verif_kani::rs_gps_sliced_n2 (/var/tmp/verif-work/C15-24792/g0_renet/renet/src/channel/verif_kani_channel_reliable.rs:1027)
//   emitted slice without timer refresh  in channel::reliable::verif_kani::rs_gps_sliced_n2 (/var/tmp/verif-work/C15-24792/g0_renet/renet/src/channel/verif_kani_channel_reliable.rs:1027)
//   timer changed for a slice that was not sent  in channel::reliable::verif_kani::rs_gps_sliced_n2 (/var/tmp/verif-work/C15-24792/g0_renet/renet/src/channel/verif_kani_channel_reliable.rs:1027)
// re-run:  ./check C15 --replay /verif/replays/C15/rs_gps_sliced_n2.rs
//@harness rs_gps_sliced_n2
//@solver-rerun
