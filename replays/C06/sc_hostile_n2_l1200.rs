// replay for property C06, harness sc_hostile_n2_l1200 (renet/channel/slice_constructor.rs)
// failed checks (confirmed by a second solver run; no native playback test could be generated):
//   index out of bounds: the length is less than or equal to the given index  in <usize as std::slice::SliceIndex<[bool]>>::index (/home/runner/.rustup/toolchains/nightly-2026-08-21-x86_64-unknown-linux-gnu/lib/rustlib/src/rust/library/core/src/slice/index.rs:238)
// re-run:  ./check C06 --replay /verif/replays/C06/sc_hostile_n2_l1200.rs
//@harness sc_hostile_n2_l1200
//@solver-rerun
