// replay for property C06, harness sc_hostile_n2_l0 (renet/channel/slice_constructor.rs)
// failed checks (confirmed by a second solver run; no native playback test could be generated):
//   assertion failed: m.len() > (2 - 1) * SLICE_SIZE && m.len() <= 2 * SLICE_SIZE  in channel::slice_constructor::verif_kani::sc_hostile_n2_l0 (/var/tmp/verif-work/C06-3478/g0_renet/renet/src/channel/verif_kani_channel_slice_constructor.rs:96)
// re-run:  ./check C06 --replay /verif/replays/C06/sc_hostile_n2_l0.rs
//@harness sc_hostile_n2_l0
//@solver-rerun
