// replay for property C06, harness rr_slice_ord_i0_done (renet/channel/reliable.rs)
// failed checks (confirmed by a second solver run; no native playback test could be generated):
//   accounting invariant (no wrap-around)  in channel::reliable::verif_kani::rr_slice_ord_i0_done (/var/tmp/verif-work/C06-12407/g0_renet/renet/src/channel/verif_kani_channel_reliable.rs:479)
//   attempt to subtract with overflow  in channel::reliable::ReceiveChannelReliable::process_slice (renet/src/channel/reliable.rs:342)
// re-run:  ./check C06 --replay /verif/replays/C06/rr_slice_ord_i0_done.rs
//@harness rr_slice_ord_i0_done
//@solver-rerun
