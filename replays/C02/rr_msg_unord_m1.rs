// replay for property C02, harness rr_msg_unord_m1 (renet/channel/reliable.rs)
// failed checks (confirmed by a second solver run; no native playback test could be generated):
//   budget error although the message fits  in channel::reliable::verif_kani::rr_msg_unord_m1 (/var/tmp/verif-work/C02-18352/g0_renet/renet/src/channel/verif_kani_channel_reliable.rs:284)
//   duplicate changed the accounting  in channel::reliable::verif_kani::rr_msg_unord_m1 (/var/tmp/verif-work/C02-18352/g0_renet/renet/src/channel/verif_kani_channel_reliable.rs:284)
//   duplicate buffered again  in channel::reliable::verif_kani::rr_msg_unord_m1 (/var/tmp/verif-work/C02-18352/g0_renet/renet/src/channel/verif_kani_channel_reliable.rs:284)
// re-run:  ./check C02 --replay /verif/replays/C02/rr_msg_unord_m1.rs
//@harness rr_msg_unord_m1
//@solver-rerun
