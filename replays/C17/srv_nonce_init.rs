// replay for property C17, harness srv_nonce_init (renetcode/server.rs)
// failed checks:
//   handshake replies share the nonce space of the session counter (both start at 0 under the same key)  in server::verif_kani::srv_nonce_init (/var/tmp/verif-work/C17-9098/g0_renetcode/renetcode/src/verif_kani_server.rs:117)
// native replay: /var/tmp/verif-work/C17-9098/g0_renetcode/renetcode/src/verif_kani_server.rs:117:5: :: handshake replies share the nonce space of the session counter (both start at 0 under the same key)
// re-run:  ./check C17 --replay /verif/replays/C17/srv_nonce_init.rs
//@harness srv_nonce_init

/// Test generated for harness `server::verif_kani::srv_nonce_init` 
///
/// Check for `assertion`: ""handshake replies share the nonce space of the session counter (both start at 0 under the same key)""

#[test]
fn kani_concrete_playback_srv_nonce_init_12505350836321299606() {
    let concrete_vals: Vec<Vec<u8>> = vec![
        // 0ul
        vec![0, 0, 0, 0, 0, 0, 0, 0],
        // 0ul
        vec![0, 0, 0, 0, 0, 0, 0, 0],
        // 0
        vec![0],
        // 0
        vec![0],
        // 0
        vec![0],
        // 0
        vec![0],
        // 0
        vec![0, 0],
        // 0
        vec![0],
        // 0
        vec![0],
        // 0
        vec![0],
        // 0
        vec![0],
        // 0
        vec![0],
        // 0
        vec![0],
        // 0
        vec![0],
        // 0
        vec![0],
        // 0
        vec![0],
        // 0
        vec![0],
        // 0
        vec![0],
        // 0
        vec![0],
        // 0
        vec![0],
        // 0
        vec![0],
        // 0
        vec![0],
        // 0
        vec![0],
        // 0
        vec![0],
        // 0
        vec![0],
        // 0
        vec![0],
        // 0
        vec![0],
        // 0
        vec![0],
        // 0
        vec![0],
        // 0
        vec![0],
        // 0
        vec![0],
        // 0
        vec![0],
        // 0
        vec![0],
        // 0
        vec![0],
        // 0
        vec![0],
        // 0
        vec![0],
        // 0
        vec![0],
        // 0
        vec![0],
        // 0
        vec![0],
        // 0
        vec![0],
        // 0
        vec![0],
        // 0
        vec![0],
        // 0
        vec![0],
        // 0
        vec![0],
        // 0
        vec![0],
        // 0
        vec![0],
        // 0
        vec![0],
        // 0
        vec![0],
        // 0
        vec![0],
        // 0
        vec![0],
        // 0
        vec![0],
        // 0
        vec![0],
        // 0
        vec![0],
        // 0
        vec![0],
        // 0
        vec![0],
        // 0
        vec![0],
        // 0
        vec![0],
        // 0
        vec![0],
        // 0
        vec![0],
        // 0
        vec![0],
        // 0
        vec![0],
        // 0
        vec![0],
        // 0
        vec![0],
        // 0
        vec![0],
        // 0
        vec![0],
        // 0
        vec![0],
        // 0
        vec![0],
        // 0
        vec![0],
        // 0
        vec![0],
        // 0
        vec![0],
        // 0
        vec![0],
    ];
    kani::concrete_playback_run(concrete_vals, srv_nonce_init);
}

