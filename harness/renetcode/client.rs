// Harnesses for renetcode/src/client.rs  (C07, C17, C18)
use super::*;
use crate::replay_protection::verif_kani::{any_window, rp_most_recent, rp_slot, WIN};
use crate::verif_models::chacha as aead;
use std::net::{IpAddr, Ipv4Addr};

fn reset_ghost(mode: u8) {
    unsafe {
        aead::NCALLS = 0;
        aead::DEC_MODE = mode;
        aead::WIDX = 0;
        aead::NSEALED = 0;
    }
}

fn any_v4() -> SocketAddr {
    let ip: [u8; 4] = kani::any();
    SocketAddr::new(IpAddr::V4(Ipv4Addr::from(ip)), kani::any())
}

fn any_secs() -> Duration {
    let s: u64 = kani::any();
    kani::assume(s < (1 << 40));
    Duration::from_secs(s)
}

/// a connect token as ConnectToken::read can return it: every scalar field arbitrary, the first N_ADDR
/// address slots filled (N_ADDR concrete per instance, may be 0), keys arbitrary
pub(crate) fn any_token<const N_ADDR: usize>() -> ConnectToken {
    let mut server_addresses: [Option<SocketAddr>; 32] = [None; 32];
    let mut i = 0;
    while i < N_ADDR {
        server_addresses[i] = Some(any_v4());
        i += 1;
    }
    ConnectToken {
        client_id: kani::any(),
        version_info: *crate::NETCODE_VERSION_INFO,
        protocol_id: kani::any(),
        create_timestamp: kani::any(),
        expire_timestamp: kani::any(),
        xnonce: kani::any(),
        server_addresses,
        client_to_server_key: kani::any(),
        server_to_client_key: kani::any(),
        private_data: [0x11; crate::NETCODE_CONNECT_TOKEN_PRIVATE_BYTES],
        timeout_seconds: kani::any(),
    }
}

const CLIENT_SEQ: u64 = 0x1_02;

fn state_code(c: &NetcodeClient) -> u8 {
    match c.state {
        ClientState::Disconnected(_) => 0,
        ClientState::SendingConnectionRequest => 1,
        ClientState::SendingConnectionResponse => 2,
        ClientState::Connected => 3,
    }
}

/// a client in an arbitrary state (state code fixed per instance), built by struct literal
fn any_client<const N_ADDR: usize>(state: u8) -> NetcodeClient {
    let current_time = any_secs();
    let connect_start_time = any_secs();
    let last_packet_received_time = any_secs();
    kani::assume(connect_start_time <= current_time && last_packet_received_time <= current_time);
    let last_packet_send_time = if kani::any() {
        let t = any_secs();
        kani::assume(t <= current_time);
        Some(t)
    } else {
        None
    };
    let token = any_token::<N_ADDR>();
    // the send sequence is CONCRETE (a symbolic sequence makes every offset into the 1400-byte `out`
    // buffer symbolic; that nonce == sequence for ALL sequences is lemma enc_len_*): one value per call site
    let sequence: u64 = CLIENT_SEQ;
    let idx: usize = kani::any();
    kani::assume(idx < 32);
    NetcodeClient {
        state: match state {
            1 => ClientState::SendingConnectionRequest,
            2 => ClientState::SendingConnectionResponse,
            3 => ClientState::Connected,
            _ => ClientState::Disconnected(DisconnectReason::ConnectionTimedOut),
        },
        client_id: token.client_id,
        connect_start_time,
        last_packet_send_time,
        last_packet_received_time,
        current_time,
        sequence,
        server_addr: any_v4(),
        server_addr_index: idx,
        connect_token: token,
        challenge_token_sequence: kani::any(),
        challenge_token_data: [0x22; NETCODE_CHALLENGE_TOKEN_BYTES],
        max_clients: kani::any(),
        client_index: kani::any(),
        send_rate: NETCODE_SEND_RATE,
        replay_protection: ReplayProtection::new(),
        out: [0u8; NETCODE_MAX_PACKET_BYTES],
    }
}

// ---- C07: NetcodeClient::new returns normally for every token a parser can produce ------------------
macro_rules! client_new_total {
    ($name:ident, $n:expr) => {
        #[kani::proof]
        #[kani::unwind(34)]
        fn $name() {
            let token = any_token::<$n>();
            let r = NetcodeClient::new(any_secs(), ClientAuthentication::Secure { connect_token: token });
            if let Ok(c) = &r {
                assert!($n > 0, "client created without a server address");
                assert!(state_code(c) == 1 && c.sequence == 0);
            }
            kani::cover!(r.is_ok() == ($n > 0), "expected outcome");
            std::mem::forget(r);
        }
    };
}
client_new_total!(client_new_total_a0, 0);
client_new_total!(client_new_total_a1, 1);
client_new_total!(client_new_total_a2, 2);

// ---- update: total (C07), timeouts exact (C18), fail-over (C18) ---------------------------------------
macro_rules! client_update {
    ($name:ident, $state:expr, $n:expr) => {
        #[kani::proof]
        #[kani::unwind(34)]
        fn $name() {
            reset_ghost(1);
            let mut c = any_client::<$n>($state);
            kani::assume(c.server_addr_index < if $n > 1 { $n } else { 1 });
            let d = any_secs();
            let pre_time = c.current_time;
            let pre_recv = c.last_packet_received_time;
            let pre_idx = c.server_addr_index;
            let timeout = c.connect_token.timeout_seconds;
            let expire = c.connect_token.expire_timestamp;
            let create = c.connect_token.create_timestamp;
            let start = c.connect_start_time;
            let r = c.update_internal_state(d);
            let now = pre_time + d;
            assert!(c.current_time == now, "clock");
            let timed_out = timeout > 0 && pre_recv + Duration::from_secs(timeout as u64) < now;
            match $state {
                3 => {
                    // connected: disconnected iff no authentic packet for more than the timeout
                    if timed_out {
                        assert!(matches!(c.state, ClientState::Disconnected(DisconnectReason::ConnectionTimedOut)), "silent server must time out");
                    } else {
                        assert!(state_code(&c) == 3 && r.is_ok(), "live connection timed out early");
                    }
                }
                1 | 2 => {
                    // a token whose expiry precedes its creation counts as expired (no lifetime left)
                    let lifetime = if expire >= create { expire - create } else { 0 };
                    let expired = (now - start).as_secs() >= lifetime;
                    if expired {
                        assert!(matches!(c.state, ClientState::Disconnected(DisconnectReason::ConnectTokenExpired)), "expired token keeps connecting");
                    } else if timed_out {
                        let next = pre_idx + 1;
                        if next < $n {
                            assert!(state_code(&c) == 1, "must fall over to the next listed server");
                            assert!(c.server_addr_index == next && Some(c.server_addr) == c.connect_token.server_addresses[next]);
                            assert!(c.connect_start_time == now && c.last_packet_received_time == now && c.last_packet_send_time.is_none());
                        } else {
                            assert!(state_code(&c) == 0, "no further server: must give up");
                        }
                    } else {
                        assert!(state_code(&c) == $state && r.is_ok(), "handshake aborted without cause");
                        assert!(c.server_addr_index == pre_idx);
                    }
                }
                _ => {
                    assert!(state_code(&c) == 0 && r.is_err(), "a disconnected client was revived");
                }
            }
            kani::cover!(timed_out, "timed out");
            kani::cover!(!timed_out, "not timed out");
            std::mem::forget(r);
            std::mem::forget(c);
        }
    };
}
client_update!(cl_update_connected, 3, 1);
client_update!(cl_update_requesting_a1, 1, 1);
client_update!(cl_update_requesting_a2, 1, 2);
client_update!(cl_update_responding_a2, 2, 2);
client_update!(cl_update_disconnected, 0, 1);

// ---- generate_packet / payload / disconnect: send timer (C18) and nonce discipline (C17) ---------------
macro_rules! client_emit {
    ($name:ident, $state:expr) => {
        #[kani::proof]
        #[kani::unwind(34)]
        fn $name() {
            reset_ghost(1);
            let mut c = any_client::<1>($state);
            let seq = c.sequence;
            let key = c.connect_token.client_to_server_key;
            let now = c.current_time;
            let last = c.last_packet_send_time;
            let addr = c.server_addr;
            let due = match last {
                None => true,
                Some(t) => now - t >= NETCODE_SEND_RATE,
            };
            let (emitted, to) = match c.generate_packet() {
                Some((buf, a)) => (Some(buf.len()), Some(a)),
                None => (None, None),
            };
            let ncalls = unsafe { aead::NCALLS };
            if $state == 0 || !due {
                assert!(emitted.is_none(), "packet emitted although not due / disconnected");
                assert!(c.sequence == seq && ncalls == 0, "sequence consumed without a packet");
            } else {
                assert!(emitted.is_some(), "state packet not emitted although the send timer elapsed");
                assert!(to == Some(addr), "packet addressed to another server");
                assert!(c.last_packet_send_time == Some(now));
                assert!(c.sequence == seq + 1, "sequence (nonce) not advanced after sealing");
                if $state == 1 {
                    assert!(emitted == Some(1078) && ncalls == 0, "connection request is sent in the clear, 1078 bytes");
                } else {
                    assert!(ncalls == 1);
                    let call = unsafe { aead::CALLS[0] };
                    let mut nonce = [0u8; 24];
                    nonce[4..12].copy_from_slice(&seq.to_le_bytes());
                    assert!(!call.decrypt && call.key == key && call.nonce == nonce, "sealed with a key/nonce other than (client_to_server_key, sequence)");
                    assert!(emitted.unwrap() <= NETCODE_MAX_PACKET_BYTES);
                }
            }
            assert!(state_code(&c) == $state);
            kani::cover!(due, "timer elapsed");
            kani::cover!(!due, "timer running");
            std::mem::forget(c);
        }
    };
}
client_emit!(cl_emit_requesting, 1);
client_emit!(cl_emit_responding, 2);
client_emit!(cl_emit_connected, 3);
client_emit!(cl_emit_disconnected, 0);

/// generate_payload_packet: only when connected, <= 1300 B accepted, sealed under (c2s key, sequence), sequence + 1
#[kani::proof]
#[kani::unwind(34)]
fn cl_payload_nonce() {
    reset_ghost(1);
    let state: u8 = kani::any();
    kani::assume(state <= 3);
    let mut c = any_client::<1>(0);
    c.state = match state {
        1 => ClientState::SendingConnectionRequest,
        2 => ClientState::SendingConnectionResponse,
        3 => ClientState::Connected,
        _ => ClientState::Disconnected(DisconnectReason::DisconnectedByServer),
    };
    let seq = c.sequence;
    let key = c.connect_token.client_to_server_key;
    let data = [7u8; 64];
    let n: usize = kani::any();
    kani::assume(n <= 64);
    let r = c.generate_payload_packet(&data[..n]);
    let ok_len = match &r {
        Ok((_, buf)) => Some(buf.len()),
        Err(_) => None,
    };
    std::mem::forget(r);
    if state == 3 {
        assert!(ok_len.is_some(), "payload refused on a connected client");
        assert!(c.sequence == seq + 1, "sequence (nonce) not advanced");
        let call = unsafe { aead::CALLS[0] };
        let mut nonce = [0u8; 24];
        nonce[4..12].copy_from_slice(&seq.to_le_bytes());
        assert!(unsafe { aead::NCALLS } == 1 && !call.decrypt && call.key == key && call.nonce == nonce && call.len == n);
    } else {
        assert!(ok_len.is_none() && c.sequence == seq && unsafe { aead::NCALLS } == 0, "payload sealed outside the connected state");
    }
    std::mem::forget(c);
}

/// oversize payloads are refused before anything is sealed
#[kani::proof]
#[kani::unwind(34)]
fn cl_payload_limit() {
    reset_ghost(1);
    let mut c = any_client::<1>(3);
    let seq = c.sequence;
    let data = [0u8; 1400];
    let n: usize = kani::any();
    kani::assume(n > NETCODE_MAX_PAYLOAD_BYTES && n <= 1400);
    let r = c.generate_payload_packet(&data[..n]);
    assert!(r.is_err() && unsafe { aead::NCALLS } == 0);
    std::mem::forget(r);
    assert!(c.sequence == seq);
    std::mem::forget(c);
}

/// disconnect: sealed under (c2s key, sequence); afterwards the client seals nothing else
#[kani::proof]
#[kani::unwind(34)]
fn cl_disconnect_nonce() {
    reset_ghost(1);
    let mut c = any_client::<1>(3);
    let seq = c.sequence;
    let key = c.connect_token.client_to_server_key;
    let r = c.disconnect();
    let ok = r.is_ok();
    std::mem::forget(r);
    assert!(ok);
    let call = unsafe { aead::CALLS[0] };
    let mut nonce = [0u8; 24];
    nonce[4..12].copy_from_slice(&seq.to_le_bytes());
    assert!(!call.decrypt && call.key == key && call.nonce == nonce);
    assert!(matches!(c.state, ClientState::Disconnected(DisconnectReason::DisconnectedByClient)));
    // nothing else can be sealed with that (or any) sequence afterwards
    reset_ghost(1);
    let g = c.generate_packet().is_some();
    let data = [1u8; 4];
    let p = c.generate_payload_packet(&data);
    let p_ok = p.is_ok();
    std::mem::forget(p);
    assert!(!g && !p_ok && unsafe { aead::NCALLS } == 0, "sealing continues after disconnect");
    std::mem::forget(c);
}

// ---- process_packet: unauthentic datagrams change nothing (C07); authentic ones drive the state machine (C18)
macro_rules! client_frame {
    ($name:ident, $state:expr, $mode:expr) => {
        #[kani::proof]
        #[kani::unwind(34)]
        fn $name() {
            reset_ghost($mode);
            let mut c = any_client::<1>($state);
            c.replay_protection = any_window();
            kani::assume(rp_most_recent(&c.replay_protection) < (1u64 << 63));
            let wi: usize = kani::any();
            kani::assume(wi < WIN);
            let pre = (state_code(&c), c.last_packet_received_time, c.last_packet_send_time, c.sequence, c.challenge_token_sequence, c.max_clients, c.client_index,
                       rp_slot(&c.replay_protection, wi), rp_most_recent(&c.replay_protection), c.server_addr_index);
            let mut buf: [u8; 64] = kani::any();
            let n: usize = kani::any();
            kani::assume(n <= 64);
            let surfaced = c.process_packet(&mut buf[..n]).is_some();
            let authentic = unsafe { aead::NCALLS >= 1 && aead::CALLS[0].ok };
            let post = (state_code(&c), c.last_packet_received_time, c.last_packet_send_time, c.sequence, c.challenge_token_sequence, c.max_clients, c.client_index,
                        rp_slot(&c.replay_protection, wi), rp_most_recent(&c.replay_protection), c.server_addr_index);
            if !authentic {
                assert!(!surfaced, "payload surfaced from an unauthentic datagram");
                assert!(pre == post, "unauthentic datagram changed client state (state / timers / window / counters)");
            } else {
                if surfaced {
                    assert!($state == 3, "payload surfaced outside the connected state");
                }
                // allowed transitions only
                let (s0, s1) = (pre.0, post.0);
                assert!(s0 == s1 || (s0 == 1 && (s1 == 2 || s1 == 0)) || (s0 == 2 && (s1 == 3 || s1 == 0)) || (s0 == 3 && s1 == 0), "illegal state transition");
                assert!(post.3 == pre.3, "receiving must not consume send sequence numbers");
            }
            kani::cover!(authentic, "authentic packet");
            kani::cover!(!authentic && n >= 18, "rejected packet of plausible size");
            std::mem::forget(c);
        }
    };
}
client_frame!(cl_frame_requesting, 1, 0);
client_frame!(cl_frame_responding, 2, 0);
client_frame!(cl_frame_connected, 3, 0);
client_frame!(cl_frame_disconnected, 0, 0);

/// authentic challenge / keep-alive / payload / disconnect: the handshake progresses (C18)
#[kani::proof]
#[kani::unwind(34)]
fn cl_progress() {
    reset_ghost(1);
    // 1. requesting + Challenge => responding, challenge stored, request timer reset
    let mut c = any_client::<1>(1);
    let key = c.connect_token.server_to_client_key;
    let pid = c.connect_token.protocol_id;
    let mut buf = [0u8; 400];
    let ts: u64 = kani::any();
    let p = Packet::Challenge { token_sequence: ts, token_data: [9u8; NETCODE_CHALLENGE_TOKEN_BYTES] };
    let r = p.encode(&mut buf, pid, Some((5, &key)));
    let n = match &r {
        Ok(n) => *n,
        Err(_) => 0,
    };
    std::mem::forget(r);
    let out = c.process_packet(&mut buf[..n]).is_some();
    assert!(!out && state_code(&c) == 2 && c.challenge_token_sequence == ts && c.last_packet_send_time.is_none(), "authentic challenge ignored");
    assert!(c.last_packet_received_time == c.current_time);
    // 2. responding + KeepAlive => connected
    let mut buf2 = [0u8; 64];
    let p = Packet::KeepAlive { client_index: 3, max_clients: 8 };
    let r = p.encode(&mut buf2, pid, Some((6, &key)));
    let n = match &r {
        Ok(n) => *n,
        Err(_) => 0,
    };
    std::mem::forget(r);
    let out = c.process_packet(&mut buf2[..n]).is_some();
    assert!(!out && state_code(&c) == 3 && c.client_index == 3 && c.max_clients == 8, "authentic keep-alive did not complete the handshake");
    // 3. connected + Disconnect => disconnected by server
    let mut buf3 = [0u8; 64];
    let r = Packet::Disconnect.encode(&mut buf3, pid, Some((7, &key)));
    let n = match &r {
        Ok(n) => *n,
        Err(_) => 0,
    };
    std::mem::forget(r);
    let _ = c.process_packet(&mut buf3[..n]).is_some();
    assert!(matches!(c.state, ClientState::Disconnected(DisconnectReason::DisconnectedByServer)));
    std::mem::forget(c);
}

/// vacuity witness (must FAIL)
#[kani::proof]
#[kani::unwind(34)]
fn cl_witness() {
    reset_ghost(1);
    let mut c = any_client::<1>(3);
    let data = [1u8; 4];
    let r = c.generate_payload_packet(&data);
    if r.is_ok() {
        assert!(false, "witness");
    }
    std::mem::forget(r);
    std::mem::forget(c);
}
