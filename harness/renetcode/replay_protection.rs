// Harnesses for renetcode/src/replay_protection.rs  (C04, C07)
use super::*;

pub(crate) const WIN: usize = NETCODE_REPLAY_BUFFER_SIZE;

/// arbitrary window state satisfying the representation invariant Inv_RP:
/// slot i is EMPTY or holds s with s % N == i and s <= most_recent
pub(crate) fn rp_slot(rp: &ReplayProtection, i: usize) -> u64 {
    rp.received_packet[i]
}
pub(crate) fn rp_most_recent(rp: &ReplayProtection) -> u64 {
    rp.most_recent_sequence
}
pub(crate) fn any_window() -> ReplayProtection {
    let rp = ReplayProtection {
        most_recent_sequence: kani::any(),
        received_packet: kani::any(),
    };
    rp
}

fn inv_slot(rp: &ReplayProtection, i: usize) -> bool {
    let v = rp.received_packet[i];
    v == EMPTY || (v as usize % NETCODE_REPLAY_BUFFER_SIZE == i && v <= rp.most_recent_sequence)
}

/// rp_total: for every u64 sequence and every window contents both operations return normally
#[kani::proof]
fn rp_total() {
    let mut rp = any_window();
    let s: u64 = kani::any();
    let _ = rp.already_received(s);
    let t: u64 = kani::any();
    rp.advance_sequence(t);
    let _ = rp.already_received(s);
}

/// rp_once: one inductive step of "an accepted sequence is never accepted again".
/// witness w: (accepted_w => already_received(w)) is preserved by advance_sequence(t) for every
/// t that the window admits (the only way decode calls it).
#[kani::proof]
fn rp_once() {
    let mut rp = any_window();
    let w: u64 = kani::any();
    let t: u64 = kani::any();
    // sequences are < 2^63 (session counters; DESIGN section 3)
    kani::assume(w < (1u64 << 63) && t < (1u64 << 63) && rp.most_recent_sequence < (1u64 << 63));
    let iw = w as usize % NETCODE_REPLAY_BUFFER_SIZE;
    let it = t as usize % NETCODE_REPLAY_BUFFER_SIZE;
    kani::assume(inv_slot(&rp, iw) && inv_slot(&rp, it));
    kani::assume(rp.already_received(w)); // ghost: w was accepted before
    kani::assume(!rp.already_received(t)); // decode only advances on admitted sequences
    rp.advance_sequence(t);
    assert!(rp.already_received(w), "accepted sequence became acceptable again");
    assert!(rp.already_received(t), "sequence just accepted is not marked");
    assert!(inv_slot(&rp, iw) && inv_slot(&rp, it), "Inv_RP broken");
    kani::cover!(iw == it && w != t, "same slot, different sequence");
    kani::cover!(t > w && t - w >= 256, "window moved past w");
}

/// rp_complete: a sequence never accepted and less than 256 behind the newest one is admitted.
/// ghost: "never accepted" == its slot does not hold a value >= w (by Inv_RP + rp_once the slot
/// holds the largest accepted sequence of that residue class).
#[kani::proof]
fn rp_complete() {
    let rp = any_window();
    let w: u64 = kani::any();
    kani::assume(w < (1u64 << 63) && rp.most_recent_sequence < (1u64 << 63));
    let iw = w as usize % NETCODE_REPLAY_BUFFER_SIZE;
    kani::assume(inv_slot(&rp, iw));
    let slot = rp.received_packet[iw];
    kani::assume(slot == EMPTY || slot < w); // no accepted sequence >= w in this residue class
    kani::assume(w + (NETCODE_REPLAY_BUFFER_SIZE as u64) > rp.most_recent_sequence);
    assert!(!rp.already_received(w), "fresh sequence inside the window rejected");
    kani::cover!(w + 255 == rp.most_recent_sequence, "exactly 255 behind");
    kani::cover!(w > rp.most_recent_sequence, "ahead of the window");
}

/// rp_old: anything 256 or more behind the newest accepted sequence is rejected
#[kani::proof]
fn rp_old() {
    let rp = any_window();
    let w: u64 = kani::any();
    kani::assume(w < (1u64 << 63) && rp.most_recent_sequence < (1u64 << 63));
    kani::assume(w + (NETCODE_REPLAY_BUFFER_SIZE as u64) <= rp.most_recent_sequence);
    assert!(rp.already_received(w));
}

/// rp_init: the constructor state satisfies Inv_RP and admits everything
#[kani::proof]
#[kani::unwind(258)]
fn rp_init() {
    let rp = ReplayProtection::new();
    let w: u64 = kani::any();
    kani::assume(w < (1u64 << 63));
    let iw = w as usize % NETCODE_REPLAY_BUFFER_SIZE;
    assert!(inv_slot(&rp, iw));
    assert!(!rp.already_received(w));
}

/// vacuity witness for this family: must FAIL
#[kani::proof]
fn rp_witness() {
    let mut rp = any_window();
    let t: u64 = kani::any();
    kani::assume(t < (1u64 << 63));
    rp.advance_sequence(t);
    assert!(false, "witness");
}
