// Harnesses for renetcode/src/packet.rs  (C04, C07, C13, C16, C17, C19)
use super::*;
use crate::replay_protection::verif_kani::{any_window, rp_most_recent, rp_slot, WIN};
use crate::verif_models::chacha as aead;
use crate::{NETCODE_MAX_PACKET_BYTES, NETCODE_MAX_PAYLOAD_BYTES};


/// datagram size bound of the window-order lemmas (the window logic does not depend on the body size)
const SMALL: usize = 64;

/// little-endian value of the n (<= 8) sequence bytes following the prefix byte.
/// Reads the 8 bytes at CONCRETE positions and masks: no symbolic array index (buffers >= 9 bytes).
fn le_seq(buf: &[u8], n: usize) -> u64 {
    let s = [buf[1], buf[2], buf[3], buf[4], buf[5], buf[6], buf[7], buf[8]];
    let v = u64::from_le_bytes(s);
    if n >= 8 {
        v
    } else {
        v & ((1u64 << (8 * n as u32)) - 1)
    }
}

fn reset_ghost(mode: u8, widx: usize) {
    unsafe {
        aead::NCALLS = 0;
        aead::DEC_MODE = mode;
        aead::WIDX = widx;
        aead::NSEALED = 0;
    }
}

/// dec_total (C07/C19): Packet::decode returns normally for EVERY datagram of every length 0..=1400,
/// every prefix byte, with/without key, with/without window; the AEAD verdict is arbitrary.
/// Also: a ConnectionRequest is only ever parsed from >= 1078 bytes, a Response from >= 325 bytes.
macro_rules! dec_total {
    ($name:ident, $size:expr, $full:expr) => {
        #[kani::proof]
        #[kani::unwind(34)]
        fn $name() {
            reset_ghost(0, 0);
            let mut buf: [u8; $size] = kani::any();
            let len: usize = kani::any();
            kani::assume(len <= $size);
            let key: [u8; 32] = kani::any();
            let pid: u64 = kani::any();
            let mut rp = any_window();
            kani::assume(rp_most_recent(&rp) < (1u64 << 63));
            let has_key: bool = kani::any();
            let has_rp: bool = kani::any();
            let r = Packet::decode(
                &mut buf[..len],
                pid,
                if has_key { Some(&key) } else { None },
                if has_rp { Some(&mut rp) } else { None },
            );
            match &r {
                Ok((_, Packet::ConnectionRequest { .. })) => {
                    assert!(len >= 1 + 13 + 8 + 8 + NETCODE_CONNECT_TOKEN_XNONCE_BYTES + NETCODE_CONNECT_TOKEN_PRIVATE_BYTES, "connection request parsed from a short datagram");
                    if $full {
                        kani::cover!(true, "request parsed");
                    }
                }
                Ok((_, Packet::Response { .. })) => {
                    assert!(len >= 1 + 8 + NETCODE_CHALLENGE_TOKEN_BYTES + 16, "response parsed from a short datagram");
                    if $full {
                        kani::cover!(true, "response parsed");
                    }
                }
                Ok((_, Packet::Payload(p))) => {
                    assert!(p.len() + 1 + 16 <= len);
                    if $full {
                        kani::cover!(p.len() == NETCODE_MAX_PAYLOAD_BYTES, "payload of the maximum size parsed");
                    }
                }
                Ok(_) => {}
                Err(_) => {
                    kani::cover!(len >= 18, "long enough but rejected");
                }
            }
            if !$full {
                assert!(!matches!(r, Ok((_, Packet::ConnectionRequest { .. }))), "connection request parsed from a datagram shorter than a request");
                if $size < 300 {
                    assert!(!matches!(r, Ok((_, Packet::Response { .. })) | Ok((_, Packet::Challenge { .. }))), "handshake packet parsed from <= 64 bytes");
                }
            }
            std::mem::forget(r);
        }
    };
}
dec_total!(dec_total, NETCODE_MAX_PACKET_BYTES, true);
dec_total!(dec_total_64, 64, false);
dec_total!(dec_total_400, 400, false);

/// dec_binding (C04/C17): whenever decode reaches the AEAD, the call carries exactly
/// key = the key argument, nonce = 0^4 || LE(sequence bytes of the datagram),
/// aad = VERSION || protocol id || prefix byte, ciphertext = the bytes between header and tag,
/// tag = the last 16 bytes.  Hence parsing is injective into the AEAD tuple: any change of the
/// datagram changes (nonce, aad, ct, tag) or fails before the AEAD.
#[kani::proof]
#[kani::unwind(34)]
fn dec_binding() {
    let widx: usize = kani::any();
    let tidx: usize = kani::any();
    kani::assume(tidx < 16);
    reset_ghost(0, widx);
    let orig: [u8; NETCODE_MAX_PACKET_BYTES] = kani::any();
    let mut buf = orig;
    let len: usize = kani::any();
    kani::assume(len <= NETCODE_MAX_PACKET_BYTES);
    let key: [u8; 32] = kani::any();
    let pid: u64 = kani::any();
    let r = Packet::decode(&mut buf[..len], pid, Some(&key), None);
    let n = unsafe { aead::NCALLS };
    assert!(n <= 1, "more than one AEAD call per datagram");
    if n == 1 {
        let c = unsafe { aead::CALLS[0] };
        let seq_len = (orig[0] >> 4) as usize;
        assert!(seq_len <= 8);
        let seq = le_seq(&orig, seq_len);
        assert!(c.decrypt && !c.xchacha);
        assert!(c.key == key, "wrong key handed to the AEAD");
        let mut nonce = [0u8; 24];
        nonce[4..12].copy_from_slice(&seq.to_le_bytes());
        assert!(c.nonce == nonce, "nonce is not the datagram's sequence");
        assert!(c.aad_len == 22);
        assert!(c.aad[..13] == *NETCODE_VERSION_INFO, "aad lacks the version");
        assert!(c.aad[13..21] == pid.to_le_bytes(), "aad lacks the protocol id");
        assert!(c.aad[21] == orig[0], "aad lacks the prefix byte");
        assert!(len >= 1 + seq_len + 16);
        assert!(c.len == len - 1 - seq_len - 16, "ciphertext is not exactly the bytes after the header");
        if widx < c.len {
            assert!(c.wbyte == orig[1 + seq_len + widx], "ciphertext byte mismatch");
        }
        assert!(c.tag[tidx] == orig[len - 16 + tidx], "tag is not the last 16 bytes");
        if let Ok((s, _)) = &r {
            assert!(*s == seq, "returned sequence is not the authenticated one");
        }
        kani::cover!(seq_len == 8 && c.len == 0, "8-byte sequence, empty body");
        kani::cover!(c.len == 1300, "full payload");
    } else {
        assert!(r.is_err() || matches!(r, Ok((_, Packet::ConnectionRequest { .. }))), "content surfaced without the AEAD");
    }
    std::mem::forget(r);
}

/// dec_window_order (C04): replay window vs AEAD.
///  * a replay-protected packet whose sequence the window rejects never reaches the AEAD (Err),
///  * AEAD Err  => window unchanged, result Err,
///  * AEAD Ok   => window advanced by exactly this sequence for KeepAlive/Payload/Disconnect,
///                 untouched for the other kinds.
#[kani::proof]
#[kani::unwind(34)]
fn dec_window_order() {
    reset_ghost(0, 0);
    let orig: [u8; SMALL] = kani::any();
    let mut buf = orig;
    let len: usize = kani::any();
    kani::assume(len <= SMALL);
    let key: [u8; 32] = kani::any();
    let pid: u64 = kani::any();
    let mut rp = any_window();
    kani::assume(rp_most_recent(&rp) < (1u64 << 63));
    let wi: usize = kani::any();
    kani::assume(wi < WIN);
    let pre_slot = rp_slot(&rp, wi);
    let pre_recent = rp_most_recent(&rp);
    let seq_len = (orig[0] >> 4) as usize;
    let ptype = orig[0] & 0xF;
    let protected = ptype == 4 || ptype == 5 || ptype == 6;
    let pre_rejects = if seq_len <= 8 && len >= 1 + seq_len {
        let s = le_seq(&orig, seq_len);
        s < (1u64 << 63) && rp.already_received(s)
    } else {
        false
    };
    let r = Packet::decode(&mut buf[..len], pid, Some(&key), Some(&mut rp));
    let n = unsafe { aead::NCALLS };
    if n == 0 {
        assert!(rp_slot(&rp, wi) == pre_slot && rp_most_recent(&rp) == pre_recent, "window changed without AEAD");
    } else {
        let c = unsafe { aead::CALLS[0] };
        let seq = le_seq(&orig, seq_len);
        kani::assume(seq < (1u64 << 63));
        if protected {
            assert!(!pre_rejects, "replayed sequence reached the AEAD");
        }
        if !c.ok {
            assert!(r.is_err(), "AEAD failure but a packet surfaced");
            assert!(rp_slot(&rp, wi) == pre_slot && rp_most_recent(&rp) == pre_recent, "window changed although the AEAD failed");
            kani::cover!(true, "aead err");
        } else if protected {
            let idx = seq as usize % WIN;
            if wi == idx {
                assert!(rp_slot(&rp, wi) == seq, "accepted sequence not recorded");
            } else {
                assert!(rp_slot(&rp, wi) == pre_slot, "foreign window slot changed");
            }
            assert!(rp_most_recent(&rp) == if seq > pre_recent { seq } else { pre_recent });
            assert!(rp.already_received(seq), "accepted sequence can be accepted again");
            kani::cover!(r.is_ok(), "protected packet accepted");
        } else {
            assert!(rp_slot(&rp, wi) == pre_slot && rp_most_recent(&rp) == pre_recent, "window changed by an unprotected kind");
        }
    }
    if protected && pre_rejects {
        assert!(r.is_err(), "window-rejected packet surfaced");
    }
    std::mem::forget(r);
}

/// dec_witness: vacuity witness for the decode family (must FAIL)
#[kani::proof]
#[kani::unwind(34)]
fn dec_witness() {
    reset_ghost(1, 0);
    let mut buf: [u8; SMALL] = kani::any();
    let len: usize = kani::any();
    kani::assume(len <= SMALL);
    let key: [u8; 32] = kani::any();
    let mut rp = any_window();
    kani::assume(rp_most_recent(&rp) < (1u64 << 63));
    let r = Packet::decode(&mut buf[..len], 7, Some(&key), Some(&mut rp));
    if let Ok((_, Packet::Payload(p))) = &r {
        if p.len() == 5 {
            assert!(false, "witness");
        }
    }
    std::mem::forget(r);
}

// ------------------------------------------------------------------------------------------
// encode side

fn seq_bytes(seq: u64) -> usize {
    let mut n = 0;
    let mut i = 0;
    while i < 8 {
        if (seq >> (8 * i)) != 0 {
            n = i + 1;
        }
        i += 1;
    }
    n
}

fn enc_checks(p: &Packet, body: usize, expect_key: &[u8; 32], pid: u64, seq: u64, out: &[u8], r: &Result<usize, NetcodeError>) {
    match r {
        Ok(n) => {
            // the number of sequence bytes is whatever the prefix announces (0..=8); the property
            // only needs it to carry the sequence and the datagram to fit
            let sl = (out[0] >> 4) as usize;
            assert!(sl <= 8 && sl <= seq_bytes(seq).max(1), "sequence length class");
            assert!(*n == 1 + sl + body + 16, "encoded length formula");
            assert!(*n <= NETCODE_MAX_PACKET_BYTES);
            assert!(out[0] & 0xF == p.id(), "prefix byte");
            assert!(le_seq(out, sl) == seq, "sequence bytes");
            let ncalls = unsafe { aead::NCALLS };
            // generate_challenge seals once before; the packet seal is the last call
            assert!(ncalls >= 1);
            let c = unsafe { aead::CALLS[ncalls - 1] };
            assert!(!c.decrypt && !c.xchacha);
            assert!(c.key == *expect_key, "sealed under the wrong key");
            let mut nonce = [0u8; 24];
            nonce[4..12].copy_from_slice(&seq.to_le_bytes());
            assert!(c.nonce == nonce, "nonce is not the sequence");
            assert!(c.aad_len == 22 && c.aad[..13] == *NETCODE_VERSION_INFO && c.aad[13..21] == pid.to_le_bytes() && c.aad[21] == out[0], "aad layout");
            assert!(c.len == body, "sealed range is not exactly the body");
        }
        Err(_) => assert!(false, "encode failed although the buffer is large enough"),
    }
}

macro_rules! enc_fixed {
    ($name:ident, $mk:expr, $body:expr, $buf:expr) => {
        #[kani::proof]
        #[kani::unwind(34)]
        fn $name() {
            reset_ghost(1, 0);
            let seq: u64 = kani::any();
            let key: [u8; 32] = kani::any();
            let pid: u64 = kani::any();
            // CBMC flattens arrays of <= 1000 elements; larger ones go through the (much slower) array theory
            let mut out = [0u8; $buf];
            let p: Packet = $mk;
            let r = p.encode(&mut out, pid, Some((seq, &key)));
            enc_checks(&p, $body, &key, pid, seq, &out, &r);
            kani::cover!(seq_bytes(seq) == 8, "8-byte sequence");
            kani::cover!(seq == 0, "sequence 0");
            std::mem::forget(r);
        }
    };
}
enc_fixed!(enc_len_denied, Packet::ConnectionDenied, 0, 64);
enc_fixed!(enc_len_disconnect, Packet::Disconnect, 0, 64);
enc_fixed!(enc_len_keepalive, Packet::KeepAlive { client_index: kani::any(), max_clients: kani::any() }, 8, 64);

/// one sequence per length class boundary (lowest and highest value of each of the 8 classes, and 0)
const BSEQ: [u64; 17] = [
    0,
    1,
    0xFF,
    0x100,
    0xFFFF,
    0x1_0000,
    0xFF_FFFF,
    0x100_0000,
    0xFFFF_FFFF,
    0x1_0000_0000,
    0xFF_FFFF_FFFF,
    0x100_0000_0000,
    0xFFFF_FFFF_FFFF,
    0x1_0000_0000_0000,
    0xFF_FFFF_FFFF_FFFF,
    0x100_0000_0000_0000,
    u64::MAX,
];

// Kinds with a large body: a body copied to a SYMBOLIC offset costs > 20 M SAT variables, so the
// sequence takes the 17 class-boundary values (concrete per loop iteration => concrete offsets);
// key, protocol id, token bytes / payload length stay symbolic.
macro_rules! enc_body_kind {
    ($name:ident, $mk:expr, $body:expr) => {
        #[kani::proof]
        #[kani::unwind(34)]
        fn $name() {
            let key: [u8; 32] = kani::any();
            let pid: u64 = kani::any();
            let p: Packet = $mk;
            let mut k = 0;
            while k < 17 {
                reset_ghost(1, 0);
                let seq = BSEQ[k];
                let mut out = [0u8; 400];
                let r = p.encode(&mut out, pid, Some((seq, &key)));
                enc_checks(&p, $body, &key, pid, seq, &out, &r);
                std::mem::forget(r);
                k += 1;
            }
        }
    };
}
enc_body_kind!(enc_len_challenge, Packet::Challenge { token_sequence: kani::any(), token_data: kani::any() }, 308);
enc_body_kind!(enc_len_response, Packet::Response { token_sequence: kani::any(), token_data: kani::any() }, 308);

/// payload: every length 0..=64 into a 128-byte buffer (the code has no payload-size dependent branch
/// other than the buffer-fit test, which enc_len_payload_max* cover at full size), 17 boundary sequences
/// (split over three harnesses to bound the solver's memory):
/// result = 1 + seqlen + len + 16 <= 1400, sealed range = exactly the payload
macro_rules! enc_payload {
    ($name:ident, $from:expr, $to:expr) => {
        #[kani::proof]
        #[kani::unwind(34)]
        fn $name() {
            let key: [u8; 32] = kani::any();
            let pid: u64 = kani::any();
            let data: [u8; 64] = kani::any();
            let n: usize = kani::any();
            kani::assume(n <= 64);
            let mut k = $from;
            while k < $to {
                reset_ghost(1, 0);
                let seq = BSEQ[k];
                let mut out = [0u8; 128];
                let p = Packet::Payload(&data[..n]);
                let r = p.encode(&mut out, pid, Some((seq, &key)));
                enc_checks(&p, n, &key, pid, seq, &out, &r);
                std::mem::forget(r);
                k += 1;
            }
            kani::cover!(n == 64, "largest payload of this instance");
        }
    };
}
enc_payload!(enc_len_payload_a, 0, 6);
enc_payload!(enc_len_payload_b, 6, 12);
enc_payload!(enc_len_payload_c, 12, 17);

macro_rules! enc_payload_max {
    ($name:ident, $seq:expr) => {
        /// payload lengths 0..=1300 into the real 1400-byte buffer, sequence fixed per instance,
        /// length formula only (reading back a > 1000-element array costs minutes: array theory)
        #[kani::proof]
        #[kani::unwind(34)]
        fn $name() {
            reset_ghost(1, 0);
            let seq: u64 = $seq;
            let key: [u8; 32] = kani::any();
            let pid: u64 = kani::any();
            let data: [u8; NETCODE_MAX_PAYLOAD_BYTES] = kani::any();
            let n: usize = kani::any();
            kani::assume(n <= NETCODE_MAX_PAYLOAD_BYTES);
            let mut out = [0u8; NETCODE_MAX_PACKET_BYTES];
            let p = Packet::Payload(&data[..n]);
            let r = p.encode(&mut out, pid, Some((seq, &key)));
            match &r {
                Ok(m) => {
                    // (`out` is not read back: a read after the symbolic-length copy into a
                    // > 1000-element array sends CBMC into the array theory for minutes)
                    assert!(*m >= 1 + seq_bytes(seq) + n + 16 && *m <= 1 + seq_bytes(seq).max(1) + n + 16);
                    assert!(*m <= NETCODE_MAX_PACKET_BYTES);
                }
                Err(_) => assert!(false, "encode failed although the buffer is large enough"),
            }
            kani::cover!(n == 1300, "largest payload");
            std::mem::forget(r);
        }
    };
}
enc_payload_max!(enc_len_payload_max0, 0);
enc_payload_max!(enc_len_payload_max8, u64::MAX);

/// payload above the limit never fits silently: encode into the 1400-byte buffer fails or stays <= 1400
#[kani::proof]
#[kani::unwind(34)]
fn enc_len_payload_over() {
    reset_ghost(1, 0);
    let key: [u8; 32] = kani::any();
    let data = [0u8; 1400];
    let n: usize = kani::any();
    kani::assume(n <= 1400);
    let mut out = [0u8; NETCODE_MAX_PACKET_BYTES];
    let p = Packet::Payload(&data[..n]);
    let r = p.encode(&mut out, 1, Some((u64::MAX, &key)));
    if let Ok(m) = &r {
        assert!(*m <= NETCODE_MAX_PACKET_BYTES && *m == 1 + 8 + n + 16);
    }
    kani::cover!(r.is_err(), "too long => error");
    std::mem::forget(r);
}

/// connection request: 1078 bytes, no AEAD involved
#[kani::proof]
#[kani::unwind(34)]
fn enc_len_request() {
    reset_ghost(1, 0);
    let mut out = [0u8; NETCODE_MAX_PACKET_BYTES];
    let p = Packet::ConnectionRequest {
        version_info: *NETCODE_VERSION_INFO,
        protocol_id: kani::any(),
        expire_timestamp: kani::any(),
        xnonce: kani::any(),
        data: [3u8; NETCODE_CONNECT_TOKEN_PRIVATE_BYTES],
    };
    let r = p.encode(&mut out, kani::any(), None);
    match &r {
        Ok(n) => assert!(*n == 1078),
        Err(_) => assert!(false),
    }
    assert!(unsafe { aead::NCALLS } == 0);
    std::mem::forget(r);
}

// ------------------------------------------------------------------------------------------
// round trips (identity AEAD, DEC_MODE 1): decode(encode(p)) == (seq, p)

macro_rules! rt_fixed {
    ($name:ident, $mk:expr, $cmp:expr, $buf:expr) => {
        #[kani::proof]
        #[kani::unwind(34)]
        fn $name() {
            reset_ghost(1, 0);
            let seq: u64 = kani::any();
            let key: [u8; 32] = kani::any();
            let pid: u64 = kani::any();
            let mut out = [0u8; $buf];
            let p: Packet = $mk;
            let r = p.encode(&mut out, pid, Some((seq, &key)));
            let n = match &r {
                Ok(n) => *n,
                Err(_) => {
                    assert!(false, "encode failed");
                    0
                }
            };
            std::mem::forget(r);
            let d = Packet::decode(&mut out[..n], pid, Some(&key), None);
            match &d {
                Ok((s, q)) => {
                    assert!(*s == seq, "sequence does not round-trip");
                    let cmp: fn(&Packet, &Packet) -> bool = $cmp;
                    assert!(cmp(&p, q), "packet does not round-trip");
                }
                Err(_) => assert!(false, "decode of an encoded packet failed"),
            }
            kani::cover!(seq_bytes(seq) == 8, "8-byte sequence");
            kani::cover!(seq_bytes(seq) == 0, "0-byte sequence");
            kani::cover!(seq_bytes(seq) == 3, "3-byte sequence");
            std::mem::forget(d);
        }
    };
}
rt_fixed!(rt_nc_denied, Packet::ConnectionDenied, |_a, b| matches!(b, Packet::ConnectionDenied), 64);
rt_fixed!(rt_nc_disconnect, Packet::Disconnect, |_a, b| matches!(b, Packet::Disconnect), 64);
rt_fixed!(
    rt_nc_keepalive,
    Packet::KeepAlive { client_index: kani::any(), max_clients: kani::any() },
    |a, b| match (a, b) {
        (Packet::KeepAlive { client_index: a1, max_clients: a2 }, Packet::KeepAlive { client_index: b1, max_clients: b2 }) => a1 == b1 && a2 == b2,
        _ => false,
    },
    64
);

static mut RT_W: usize = 0;

fn tok_eq_at_w(a: &Packet, b: &Packet) -> bool {
    let w = unsafe { RT_W };
    match (a, b) {
        (Packet::Challenge { token_sequence: s1, token_data: d1 }, Packet::Challenge { token_sequence: s2, token_data: d2 }) => s1 == s2 && d1[w] == d2[w],
        (Packet::Response { token_sequence: s1, token_data: d1 }, Packet::Response { token_sequence: s2, token_data: d2 }) => s1 == s2 && d1[w] == d2[w],
        _ => false,
    }
}

macro_rules! rt_body_kind {
    ($name:ident, $mk:expr, $from:expr, $to:expr) => {
        #[kani::proof]
        #[kani::unwind(34)]
        fn $name() {
            let w: usize = kani::any();
            kani::assume(w < NETCODE_CHALLENGE_TOKEN_BYTES);
            unsafe {
                RT_W = w;
            }
            let key: [u8; 32] = kani::any();
            let pid: u64 = kani::any();
            let p: Packet = $mk;
            let mut k = $from;
            while k < $to {
                reset_ghost(1, 0);
                let seq = BSEQ[k];
                let mut out = [0u8; 400];
                let r = p.encode(&mut out, pid, Some((seq, &key)));
                let n = match &r {
                    Ok(n) => *n,
                    Err(_) => {
                        assert!(false, "encode failed");
                        0
                    }
                };
                std::mem::forget(r);
                let d = Packet::decode(&mut out[..n], pid, Some(&key), None);
                match &d {
                    Ok((s, q)) => {
                        assert!(*s == seq, "sequence does not round-trip");
                        assert!(tok_eq_at_w(&p, q), "packet does not round-trip");
                    }
                    Err(_) => assert!(false, "decode of an encoded packet failed"),
                }
                std::mem::forget(d);
                k += 1;
            }
        }
    };
}
rt_body_kind!(rt_nc_challenge_a, Packet::Challenge { token_sequence: kani::any(), token_data: kani::any() }, 0, 6);
rt_body_kind!(rt_nc_challenge_b, Packet::Challenge { token_sequence: kani::any(), token_data: kani::any() }, 6, 12);
rt_body_kind!(rt_nc_challenge_c, Packet::Challenge { token_sequence: kani::any(), token_data: kani::any() }, 12, 17);
rt_body_kind!(rt_nc_response_a, Packet::Response { token_sequence: kani::any(), token_data: kani::any() }, 0, 6);
rt_body_kind!(rt_nc_response_b, Packet::Response { token_sequence: kani::any(), token_data: kani::any() }, 6, 12);
rt_body_kind!(rt_nc_response_c, Packet::Response { token_sequence: kani::any(), token_data: kani::any() }, 12, 17);

/// payload round trip: every length 0..=64 (128-byte buffer), content witnessed at one symbolic offset, 17 boundary
/// sequences (split over three harnesses)
macro_rules! rt_payload {
    ($name:ident, $from:expr, $to:expr) => {
        #[kani::proof]
        #[kani::unwind(34)]
        fn $name() {
            let key: [u8; 32] = kani::any();
            let pid: u64 = kani::any();
            let data: [u8; 64] = kani::any();
            let n: usize = kani::any();
            kani::assume(n <= 64);
            let w: usize = kani::any();
            kani::assume(w < n);
            let mut k = $from;
            while k < $to {
                reset_ghost(1, 0);
                let seq = BSEQ[k];
                let mut out = [0u8; 128];
                let p = Packet::Payload(&data[..n]);
                let r = p.encode(&mut out, pid, Some((seq, &key)));
                let m = match &r {
                    Ok(m) => *m,
                    Err(_) => {
                        assert!(false, "encode failed");
                        0
                    }
                };
                std::mem::forget(r);
                let d = Packet::decode(&mut out[..m], pid, Some(&key), None);
                match &d {
                    Ok((s, Packet::Payload(q))) => {
                        assert!(*s == seq);
                        assert!(q.len() == n, "payload length changed");
                        assert!(q[w] == data[w], "payload byte changed");
                    }
                    _ => assert!(false, "payload does not round-trip"),
                }
                std::mem::forget(d);
                k += 1;
            }
            kani::cover!(n == 64, "64 bytes");
            kani::cover!(n == 1, "1 byte");
        }
    };
}
// one class-boundary sequence per harness (symbolic payload length 0..=64 makes decode's slicing symbolic)
rt_payload!(rt_nc_payload_s0, 0, 1);
rt_payload!(rt_nc_payload_s1, 2, 3);
rt_payload!(rt_nc_payload_s4, 8, 9);
rt_payload!(rt_nc_payload_s8, 16, 17);

/// payload round trip with concrete length 2 for all 17 boundary sequences (content symbolic)
#[kani::proof]
#[kani::unwind(34)]
fn rt_nc_payload_sizes() {
    let key: [u8; 32] = kani::any();
    let pid: u64 = kani::any();
    let data: [u8; 37] = kani::any();
    let w: usize = kani::any();
    kani::assume(w < 37);
    let sizes = [2usize];
    let mut j = 0;
    while j < 1 {
        let n = sizes[j];
        let mut k = 0;
        while k < 17 {
            reset_ghost(1, 0);
            let seq = BSEQ[k];
            let mut out = [0u8; 64];
            let p = Packet::Payload(&data[..n]);
            let r = p.encode(&mut out, pid, Some((seq, &key)));
            let m = match &r {
                Ok(m) => *m,
                Err(_) => {
                    assert!(false, "encode failed");
                    0
                }
            };
            std::mem::forget(r);
            let d = Packet::decode(&mut out[..m], pid, Some(&key), None);
            match &d {
                Ok((s, Packet::Payload(q))) => {
                    assert!(*s == seq);
                    assert!(q.len() == n, "payload length changed");
                    if w < n {
                        assert!(q[w] == data[w], "payload byte changed");
                    }
                }
                _ => assert!(false, "payload does not round-trip"),
            }
            std::mem::forget(d);
            k += 1;
        }
        j += 1;
    }
}

/// connection request round trip (not sealed)
#[kani::proof]
#[kani::unwind(34)]
fn rt_nc_request() {
    reset_ghost(1, 0);
    let w: usize = kani::any();
    kani::assume(w < NETCODE_CONNECT_TOKEN_PRIVATE_BYTES);
    let xw: usize = kani::any();
    kani::assume(xw < 24);
    let mut out = [0u8; NETCODE_MAX_PACKET_BYTES];
    let version_info: [u8; 13] = kani::any();
    let protocol_id: u64 = kani::any();
    let expire_timestamp: u64 = kani::any();
    let xnonce: [u8; 24] = kani::any();
    let data: [u8; NETCODE_CONNECT_TOKEN_PRIVATE_BYTES] = kani::any();
    let p = Packet::ConnectionRequest { version_info, protocol_id, expire_timestamp, xnonce, data };
    let r = p.encode(&mut out, kani::any(), None);
    let n = match &r {
        Ok(n) => *n,
        Err(_) => {
            assert!(false);
            0
        }
    };
    std::mem::forget(r);
    let d = Packet::decode(&mut out[..n], kani::any(), None, None);
    match &d {
        Ok((_, Packet::ConnectionRequest { version_info: v, protocol_id: pi, expire_timestamp: e, xnonce: x, data: dd })) => {
            assert!(*v == version_info && *pi == protocol_id && *e == expire_timestamp);
            assert!(x[xw] == xnonce[xw] && dd[w] == data[w]);
        }
        _ => assert!(false, "request does not round-trip"),
    }
    std::mem::forget(d);
}

/// challenge token: generate_challenge seals (client_id, user_data) under the challenge key with
/// the challenge sequence; ChallengeToken::decode returns exactly them (identity AEAD).
#[kani::proof]
#[kani::unwind(34)]
fn rt_challenge_token() {
    let w: usize = kani::any();
    kani::assume(w < NETCODE_USER_DATA_BYTES);
    reset_ghost(1, 0);
    let id: u64 = kani::any();
    let ud: [u8; NETCODE_USER_DATA_BYTES] = kani::any();
    let cs: u64 = kani::any();
    let ck: [u8; 32] = kani::any();
    let p = Packet::generate_challenge(id, &ud, cs, &ck);
    match &p {
        Ok(Packet::Challenge { token_sequence, token_data }) => {
            assert!(*token_sequence == cs);
            let c = unsafe { aead::CALLS[0] };
            assert!(!c.decrypt && c.key == ck && c.aad_len == 0 && c.len == NETCODE_CHALLENGE_TOKEN_BYTES - 16);
            let mut nonce = [0u8; 24];
            nonce[4..12].copy_from_slice(&cs.to_le_bytes());
            assert!(c.nonce == nonce);
            let t = ChallengeToken::decode(*token_data, cs, &ck);
            match &t {
                Ok(t) => assert!(t.client_id == id && t.user_data[w] == ud[w], "challenge token does not round-trip"),
                Err(_) => assert!(false),
            }
            std::mem::forget(t);
        }
        _ => assert!(false, "generate_challenge failed"),
    }
    std::mem::forget(p);
}

/// vacuity witness for the encode / round-trip family (must FAIL)
#[kani::proof]
#[kani::unwind(34)]
fn enc_witness() {
    reset_ghost(1, 0);
    let seq: u64 = kani::any();
    let key: [u8; 32] = kani::any();
    let mut out = [0u8; 64];
    let p = Packet::KeepAlive { client_index: 1, max_clients: 2 };
    let r = p.encode(&mut out, 1, Some((seq, &key)));
    let n = match &r {
        Ok(n) => *n,
        Err(_) => 0,
    };
    std::mem::forget(r);
    let d = Packet::decode(&mut out[..n], 1, Some(&key), None);
    if d.is_ok() {
        assert!(false, "witness");
    }
    std::mem::forget(d);
}

// =====================================================================================================================
// CONTRACT functions for the netcode-server step lemmas (variant "contracts"; see models/netcode_contracts.rs).
// tools/stage.py re-points server.rs's calls to Packet::decode / encode / generate_challenge and ChallengeToken::decode
// at these.  What they assume about the real functions is what dec_total, dec_binding, dec_window_order, enc_len_*,
// rt_nc_* and rt_challenge_token establish for them at the real sizes, plus the ideal-AEAD assumption.
use crate::verif_models::contracts as ct;

pub(crate) const VERIF_REQUEST_BYTES: usize = 1 + 13 + 8 + 8 + NETCODE_CONNECT_TOKEN_XNONCE_BYTES + NETCODE_CONNECT_TOKEN_PRIVATE_BYTES;

impl<'a> Packet<'a> {
    pub(crate) fn verif_decode(
        buffer: &'a mut [u8],
        protocol_id: u64,
        private_key: Option<&[u8; 32]>,
        replay_protection: Option<&mut ReplayProtection>,
    ) -> Result<(u64, Self), NetcodeError> {
        unsafe {
            ct::NDEC += 1;
            ct::DEC_HAD_KEY = private_key.is_some();
            if let Some(k) = private_key {
                ct::DEC_KEY = *k;
            }
            ct::DEC_HAD_WINDOW = replay_protection.is_some();
        }
        if buffer.len() < 2 + NETCODE_MAC_BYTES {
            return Err(NetcodeError::PacketTooSmall);
        }
        let ty = buffer[0] & 0xF;
        if ty > 6 {
            return Err(NetcodeError::InvalidPacketType);
        }
        if ty == 0 {
            // a connection request travels in the clear: every field is the sender's choice, nothing is authenticated
            if buffer.len() < VERIF_REQUEST_BYTES || unsafe { !ct::REQ_PARSES } {
                return Err(NetcodeError::PacketTooSmall);
            }
            return Ok((0, unsafe {
                Packet::ConnectionRequest {
                    version_info: ct::REQ_VERSION,
                    protocol_id: ct::REQ_PID,
                    expire_timestamp: ct::REQ_EXPIRE,
                    xnonce: ct::REQ_XNONCE,
                    data: ct::REQ_DATA,
                }
            }));
        }
        let key = match private_key {
            Some(k) => k,
            None => return Err(NetcodeError::UnavailablePrivateKey),
        };
        let seq_len = (buffer[0] >> 4) as usize;
        if seq_len > 8 || buffer.len() < 1 + seq_len + NETCODE_MAC_BYTES {
            return Err(NetcodeError::PacketTooSmall);
        }
        let protected = ty == 4 || ty == 5 || ty == 6;
        let (auth, akey, apid, akind, aseq) = unsafe { (ct::AUTH, ct::AUTH_KEY, ct::AUTH_PID, ct::AUTH_KIND, ct::AUTH_SEQ) };
        // the sequence is read from the header before anything is authenticated (replay check first: dec_window_order);
        // for a forged datagram it is arbitrary - but then the AEAD rejects, so only the authentic one matters
        let is_authentic = auth && *key == akey && protocol_id == apid && ty == akind && ct::sequence_bytes(aseq) == seq_len;
        // the header sequence of any other datagram is its sender's choice (FORGED_SEQ: arbitrary, may repeat a seen one)
        let sequence = if is_authentic { aseq } else { unsafe { ct::FORGED_SEQ } };
        if let Some(ref rp) = replay_protection {
            if protected && rp.already_received(sequence) {
                return Err(NetcodeError::DuplicatedSequence);
            }
        }
        // ideal AEAD: only THE datagram sealed by the key holder verifies - under its key, protocol id, kind, sequence
        if !is_authentic {
            return Err(NetcodeError::CryptoError);
        }
        unsafe {
            ct::DEC_AUTHENTICATED = true;
        }
        if let Some(rp) = replay_protection {
            if protected {
                rp.advance_sequence(sequence);
            }
        }
        let body = 1 + seq_len;
        let end = buffer.len() - NETCODE_MAC_BYTES;
        let packet = match ty {
            1 => Packet::ConnectionDenied,
            2 => Packet::Challenge { token_sequence: unsafe { ct::AUTH_A }, token_data: unsafe { ct::AUTH_TOKEN } },
            3 => Packet::Response { token_sequence: unsafe { ct::AUTH_A }, token_data: unsafe { ct::AUTH_TOKEN } },
            4 => Packet::KeepAlive { client_index: unsafe { ct::AUTH_A } as u32, max_clients: unsafe { ct::AUTH_B } as u32 },
            5 => Packet::Payload(&buffer[body..end]),
            _ => Packet::Disconnect,
        };
        Ok((sequence, packet))
    }

    pub(crate) fn verif_encode(&self, buffer: &mut [u8], protocol_id: u64, crypto_info: Option<(u64, &[u8; 32])>) -> Result<usize, NetcodeError> {
        let (sequence, key) = match crypto_info {
            Some(x) => x,
            None => return Err(NetcodeError::UnavailablePrivateKey),
        };
        let (body, a, b) = match self {
            Packet::ConnectionRequest { .. } => return Err(NetcodeError::InvalidPacketType), // never sealed; the server never sends one
            Packet::ConnectionDenied | Packet::Disconnect => (0, 0, 0),
            Packet::Challenge { token_sequence, .. } | Packet::Response { token_sequence, .. } => (8 + NETCODE_CHALLENGE_TOKEN_BYTES, *token_sequence, 0),
            Packet::KeepAlive { client_index, max_clients } => (8, *client_index as u64, *max_clients as u64),
            Packet::Payload(p) => (p.len(), 0, 0),
        };
        let len = 1 + ct::sequence_bytes(sequence) + body + NETCODE_MAC_BYTES;
        if buffer.len() < len {
            return Err(NetcodeError::PacketTooSmall);
        }
        unsafe {
            if ct::NENC < 2 {
                ct::ENC[ct::NENC] = ct::EncCall { kind: self.id(), sequence, key: *key, protocol_id, a, b, len };
            }
            ct::NENC += 1;
        }
        Ok(len)
    }

    pub(crate) fn verif_generate_challenge(
        client_id: u64,
        user_data: &[u8; NETCODE_USER_DATA_BYTES],
        challenge_sequence: u64,
        challenge_key: &[u8; NETCODE_KEY_BYTES],
    ) -> Result<Self, NetcodeError> {
        unsafe {
            ct::NGEN += 1;
            ct::GEN_ID = client_id;
            ct::GEN_UD = *user_data;
            ct::GEN_SEQ = challenge_sequence;
            ct::GEN_KEY = *challenge_key;
        }
        Ok(Packet::Challenge { token_sequence: challenge_sequence, token_data: [0u8; NETCODE_CHALLENGE_TOKEN_BYTES] })
    }
}

impl ChallengeToken {
    pub(crate) fn verif_decode(
        token_data: [u8; NETCODE_CHALLENGE_TOKEN_BYTES],
        token_sequence: u64,
        challenge_key: &[u8; NETCODE_KEY_BYTES],
    ) -> Result<ChallengeToken, NetcodeError> {
        unsafe {
            ct::NCHAL_DEC += 1;
            if ct::CHAL && *challenge_key == ct::CHAL_KEY && token_sequence == ct::CHAL_SEQ && token_data == ct::CHAL_DATA {
                return Ok(ChallengeToken { client_id: ct::CHAL_ID, user_data: ct::CHAL_UD });
            }
        }
        Err(NetcodeError::CryptoError)
    }
}
