// Harnesses for renetcode/src/server.rs  (C05, C07, C10, C17, C18, C19)
// Variant "small": NETCODE_MAX_CLIENTS literal rewritten to 2 (=> 2 client slots, 4 token entries) and model
// HashMap; the AEAD primitive is the recording identity cipher of models/chacha.rs.
// Rules (measured): never drop a NetcodeError (io::Error drop glue) -> call process_packet_internal and
// mem::forget the Result; observe through the returned ServerResult + pre-state facts.
use super::*;
use crate::replay_protection::verif_kani::{any_window, rp_most_recent, rp_slot};
use crate::token::PrivateConnectToken;
use crate::verif_models::chacha as aead;
use crate::{NETCODE_CHALLENGE_TOKEN_BYTES, NETCODE_CONNECT_TOKEN_PRIVATE_BYTES};
use std::net::{IpAddr, Ipv4Addr};

static mut SEQ_KNOB: u64 = u64::MAX;
static mut ONE_SLOT: bool = false;

fn reset_ghost(mode: u8) {
    unsafe {
        aead::NCALLS = 0;
        aead::DEC_MODE = mode;
        aead::WIDX = 0;
        aead::NSEALED = 0;
    }
}

fn any_v4() -> SocketAddr {
    let ip: [u8; 4] = kani::any();
    SocketAddr::new(IpAddr::V4(Ipv4Addr::from(ip)), kani::any())
}
fn any_secs() -> Duration {
    let s: u64 = kani::any();
    kani::assume(s < (1 << 40));
    Duration::from_secs(s)
}

fn any_connection(addr: SocketAddr, state: ConnectionState, now: Duration) -> Connection {
    let last_recv = any_secs();
    let last_send = any_secs();
    kani::assume(last_recv <= now && last_send <= now);
    let mut sequence: u64 = kani::any();
    kani::assume(sequence < (1u64 << 62));
    // knob: harnesses that seal a packet with a body at an offset that depends on the sequence length use the
    // class-boundary sequences with concrete values (see DESIGN A.2 item 4)
    let knob = unsafe { SEQ_KNOB };
    if knob != u64::MAX {
        sequence = knob;
    }
    Connection {
        confirmed: kani::any(),
        client_id: kani::any(),
        state,
        send_key: kani::any(),
        receive_key: kani::any(),
        user_data: [0x33; NETCODE_USER_DATA_BYTES],
        addr,
        last_packet_received_time: last_recv,
        last_packet_send_time: last_send,
        timeout_seconds: kani::any(),
        sequence,
        expire_timestamp: kani::any(),
        replay_protection: ReplayProtection::new(),
    }
}

/// server with 2 slots; `occ` = which slots hold a connected client (fixed per instance)
fn any_server(occ: [bool; 2]) -> (NetcodeServer, [Option<(u64, SocketAddr)>; 2]) {
    let now = any_secs();
    let mut facts: [Option<(u64, SocketAddr)>; 2] = [None; 2];
    let a0 = any_v4();
    let a1 = any_v4();
    let c0 = if occ[0] { Some(any_connection(a0, ConnectionState::Connected, now)) } else { None };
    let c1 = if occ[1] { Some(any_connection(a1, ConnectionState::Connected, now)) } else { None };
    if let Some(c) = &c0 {
        facts[0] = Some((c.client_id, c.addr));
    }
    if let Some(c) = &c1 {
        facts[1] = Some((c.client_id, c.addr));
    }
    // Inv_T: ids and addresses of connected clients are pairwise distinct
    if let (Some((i0, ad0)), Some((i1, ad1))) = (facts[0], facts[1]) {
        kani::assume(i0 != i1 && ad0 != ad1);
    }
    let global_sequence: u64 = kani::any();
    kani::assume(global_sequence >= (1u64 << 63) && global_sequence < u64::MAX - 8);
    let s = NetcodeServer {
        clients: if unsafe { ONE_SLOT } { std::mem::forget(c1); vec![c0].into_boxed_slice() } else { vec![c0, c1].into_boxed_slice() },
        pending_clients: HashMap::new(),
        connect_token_entries: Box::new([None; NETCODE_MAX_CLIENTS * 2]),
        protocol_id: kani::any(),
        connect_key: kani::any(),
        max_clients: if unsafe { ONE_SLOT } { 1 } else { 2 },
        challenge_sequence: kani::any::<u32>() as u64,
        challenge_key: kani::any(),
        public_addresses: vec![any_v4()],
        current_time: now,
        global_sequence,
        secure: true,
        out: [0u8; NETCODE_MAX_PACKET_BYTES],
    };
    (s, facts)
}

fn result_code(r: &ServerResult) -> u8 {
    match r {
        ServerResult::None => 0,
        ServerResult::PacketToSend { .. } => 1,
        ServerResult::Payload { .. } => 2,
        ServerResult::ClientConnected { .. } => 3,
        ServerResult::ClientDisconnected { .. } => 4,
    }
}

// ---- C17: nonce spaces.  Handshake replies are sealed under a session's send key with the server-wide
// global_sequence, the session's own packets with its counter starting at 0: the two spaces must be disjoint,
// i.e. the global counter must start (and stay) at or above 2^63 as in the reference implementation.
#[kani::proof]
#[kani::unwind(40)]
fn srv_nonce_init() {
    reset_ghost(1);
    let s = NetcodeServer::new(ServerConfig {
        current_time: any_secs(),
        max_clients: 2,
        protocol_id: kani::any(),
        public_addresses: vec![any_v4()],
        authentication: ServerAuthentication::Secure { private_key: kani::any() },
    });
    assert!(s.global_sequence >= (1u64 << 63), "handshake replies share the nonce space of the session counter (both start at 0 under the same key)");
    assert!(s.clients.len() == 2 && s.clients[0].is_none() && s.clients[1].is_none() && s.pending_clients.is_empty());
    assert!(s.max_clients == 2 && s.challenge_sequence == 0);
    std::mem::forget(s);
}

// ---- C10 / C17: disconnect(id) ----------------------------------------------------------------------------
macro_rules! srv_disconnect {
    ($name:ident, $o0:expr, $o1:expr) => {
        #[kani::proof]
        #[kani::unwind(40)]
        fn $name() {
            reset_ghost(1);
            let (mut s, facts) = any_server([$o0, $o1]);
            let id: u64 = kani::any();
            let seqs = [s.clients[0].as_ref().map(|c| (c.sequence, c.send_key)), s.clients[1].as_ref().map(|c| (c.sequence, c.send_key))];
            let hit = if facts[0].map(|f| f.0) == Some(id) { Some(0) } else if facts[1].map(|f| f.0) == Some(id) { Some(1) } else { None };
            let r = s.disconnect(id);
            match (&r, hit) {
                (ServerResult::ClientDisconnected { client_id, addr, payload }, Some(k)) => {
                    assert!(*client_id == id && *addr == facts[k].unwrap().1, "disconnect reported for another session than the one authenticated for this id");
                    assert!(payload.is_some());
                    let c = unsafe { aead::CALLS[0] };
                    let (sq, key) = seqs[k].unwrap();
                    let mut nonce = [0u8; 24];
                    nonce[4..12].copy_from_slice(&sq.to_le_bytes());
                    assert!(!c.decrypt && c.key == key && c.nonce == nonce, "disconnect packet not sealed under the session's (send key, sequence)");
                }
                (ServerResult::None, None) => {}
                _ => assert!(false, "disconnect event does not match the connection table"),
            }
            kani::cover!(hit.is_some(), "client found");
            std::mem::forget(r);
            std::mem::forget(s);
        }
    };
}
srv_disconnect!(srv_disconnect_11, true, true);
srv_disconnect!(srv_disconnect_01, false, true);

// ---- C18 / C17: update_client: timeout exact, keep-alive timer, nonce ----------------------------------------
macro_rules! srv_update_client {
    ($name:ident, $o0:expr, $o1:expr, $k:expr) => {
#[kani::proof]
#[kani::unwind(40)]
fn $name() {
    reset_ghost(1);
    let (mut s, facts) = any_server([$o0, $o1]);
    let k: usize = $k;
    let (id, addr) = facts[k].unwrap();
    let (timeout, last_recv, last_send, sq, key) = {
        let c = s.clients[k].as_ref().unwrap();
        (c.timeout_seconds, c.last_packet_received_time, c.last_packet_send_time, c.sequence, c.send_key)
    };
    let now = s.current_time;
    let r = s.update_client(id);
    let timed_out = timeout > 0 && last_recv + Duration::from_secs(timeout as u64) < now;
    let mut nonce = [0u8; 24];
    nonce[4..12].copy_from_slice(&sq.to_le_bytes());
    match &r {
        ServerResult::ClientDisconnected { client_id, addr: a, .. } => {
            assert!(timed_out, "live client timed out");
            assert!(*client_id == id && *a == addr);
            let c = unsafe { aead::CALLS[0] };
            assert!(c.key == key && c.nonce == nonce);
        }
        ServerResult::PacketToSend { addr: a, payload } => {
            assert!(!timed_out, "silent client kept alive");
            assert!(last_send + NETCODE_SEND_RATE <= now, "keep-alive before the send timer elapsed");
            assert!(*a == addr && payload.len() <= 33);
            let c = unsafe { aead::CALLS[0] };
            assert!(c.key == key && c.nonce == nonce, "keep-alive not sealed under the session's (send key, sequence)");
        }
        ServerResult::None => {
            assert!(!timed_out, "silent client not disconnected at update");
            assert!(!(last_send + NETCODE_SEND_RATE <= now), "keep-alive missing although the send timer elapsed");
        }
        _ => assert!(false),
    }
    kani::cover!(timed_out, "timeout");
    kani::cover!(matches!(r, ServerResult::PacketToSend { .. }), "keep alive");
    std::mem::forget(r);
    std::mem::forget(s);
}
    };
}
srv_update_client!(srv_update_client_11_k0, true, true, 0);
srv_update_client!(srv_update_client_11_k1, true, true, 1);
srv_update_client!(srv_update_client_01_k1, false, true, 1);

/// update_client for an id that is not connected reports nothing (no disconnect without a connect)
#[kani::proof]
#[kani::unwind(40)]
fn srv_update_unknown() {
    reset_ghost(1);
    let (mut s, facts) = any_server([true, false]);
    let id: u64 = kani::any();
    kani::assume(Some(id) != facts[0].map(|f| f.0));
    let r = s.update_client(id);
    assert!(matches!(r, ServerResult::None));
    std::mem::forget(r);
    let r = s.disconnect(id);
    assert!(matches!(r, ServerResult::None));
    std::mem::forget(r);
    assert!(!s.is_client_connected(id) && s.client_addr(id).is_none() && s.user_data(id).is_none());
    std::mem::forget(s);
}

// ---- C10 / C17 / C04: generate_payload_packet routes by id to the authenticated session ---------------------------
#[kani::proof]
#[kani::unwind(40)]
fn srv_payload_route() {
    reset_ghost(1);
    let (mut s, facts) = any_server([true, true]);
    let id: u64 = kani::any();
    let pre = [s.clients[0].as_ref().map(|c| (c.sequence, c.send_key)), s.clients[1].as_ref().map(|c| (c.sequence, c.send_key))];
    let hit = if facts[0].map(|f| f.0) == Some(id) { Some(0) } else if facts[1].map(|f| f.0) == Some(id) { Some(1) } else { None };
    let data = [5u8; 8];
    let n: usize = 8; // concrete: a symbolic-length copy into `out` explodes CBMC's array post-processing
    let r = s.generate_payload_packet(id, &data[..n]);
    let out = match &r {
        Ok((a, buf)) => Some((*a, buf.len())),
        Err(_) => None,
    };
    std::mem::forget(r);
    match (out, hit) {
        (Some((a, len)), Some(k)) => {
            assert!(a == facts[k].unwrap().1, "payload routed to another address than the session authenticated for this id");
            let (sq, key) = pre[k].unwrap();
            let c = unsafe { aead::CALLS[0] };
            let mut nonce = [0u8; 24];
            nonce[4..12].copy_from_slice(&sq.to_le_bytes());
            assert!(!c.decrypt && c.key == key && c.nonce == nonce && c.len == n, "payload not sealed under the session's (send key, sequence)");
            assert!(len <= n + 25);
            assert!(s.clients[k].as_ref().unwrap().sequence == sq + 1, "session sequence (nonce) not advanced");
        }
        (None, None) => {}
        _ => assert!(false, "payload routing does not match the connection table"),
    }
    std::mem::forget(s);
}

// ---- C05 / C10: the response path --------------------------------------------------------------------------------
// A session for client id A (user data 0x44..) is pending at `addr`.  The datagram is a Response whose outer seal is
// authentic for that session and which echoes a challenge THIS server issued (ideal AEAD, DEC_MODE 3) - but the
// challenge may have been issued for ANY id B with ANY user data (the attacker legitimately owns another token).
macro_rules! srv_resp_guard {
    ($name:ident, $o0:expr, $o1:expr) => {
        #[kani::proof]
        #[kani::unwind(40)]
        fn $name() {
            let (mut s, facts) = any_server([$o0, $o1]);
            let addr = any_v4();
            if let Some((_, a)) = facts[0] {
                kani::assume(a != addr);
            }
            if let Some((_, a)) = facts[1] {
                kani::assume(a != addr);
            }
            let now = s.current_time;
            let mut pending = any_connection(addr, ConnectionState::PendingResponse, now);
            pending.user_data = [0x44; NETCODE_USER_DATA_BYTES];
            pending.sequence = 0;
            let id_a = pending.client_id;
            let rkey = pending.receive_key;
            s.pending_clients.slots[0] = Some((addr, pending));
            s.pending_clients.len = 1;
            // the echoed challenge: (B, user data 0x55..) sealed by this server under its challenge key
            let id_b: u64 = kani::any();
            let ud_b: u8 = kani::any();
            let ts: u64 = kani::any::<u32>() as u64;
            let mut token_data = [ud_b; NETCODE_CHALLENGE_TOKEN_BYTES];
            token_data[..8].copy_from_slice(&id_b.to_le_bytes());
            let pkt = Packet::Response { token_sequence: ts, token_data };
            let mut dgram = [0u8; 1 + 8 + 8 + NETCODE_CHALLENGE_TOKEN_BYTES + 16 + 7];
            reset_ghost(1);
            let pid = s.protocol_id;
            let seq: u64 = kani::any::<u8>() as u64 + 1;
            let er = pkt.encode(&mut dgram, pid, Some((seq, &rkey)));
            let n = match &er {
                Ok(n) => *n,
                Err(_) => 0,
            };
            std::mem::forget(er);
            // ideal AEAD from here on: only the two tuples sealed above / by the server verify
            unsafe {
                aead::SEALED[0] = aead::CALLS[0];
                let mut ch = aead::NO_CALL;
                ch.key = s.challenge_key;
                ch.nonce[4..12].copy_from_slice(&ts.to_le_bytes());
                ch.len = NETCODE_CHALLENGE_TOKEN_BYTES - 16;
                ch.wbyte = token_data[0];
                aead::SEALED[1] = ch;
                aead::NSEALED = 2;
                aead::NCALLS = 0;
                aead::DEC_MODE = 3;
            }
            let connected_before = [facts[0].map(|f| f.0), facts[1].map(|f| f.0)];
            let gs0 = s.global_sequence;
            let r = s.process_packet_internal(addr, &mut dgram[..n]);
            if let Ok(ServerResult::ClientConnected { client_id, addr: a, user_data, .. }) = &r {
                assert!(*a == addr, "connected at another address than the pending session's");
                assert!(*client_id == id_a, "connected under an id other than the pending session's");
                assert!(id_b == id_a, "response echoing a challenge issued for ANOTHER client id produced a connection");
                assert!(user_data[0] == 0x44 || ud_b == 0x44, "reported user data is not the data sealed in this session's token");
                assert!(connected_before[0] != Some(*client_id) && connected_before[1] != Some(*client_id), "duplicate client id in the connection table");
                assert!(!($o0 && $o1), "connected although every slot was taken");
            }
            let mut replied = false;
            if let Ok(ServerResult::PacketToSend { addr: a, payload }) = &r {
                assert!(*a == addr && payload.len() < n, "reply to another address / amplification");
                replied = true;
            }
            kani::cover!(matches!(r, Ok(ServerResult::ClientConnected { .. })), "connects");
            std::mem::forget(r);
            if replied {
                // a handshake reply (denied) sealed under the session key consumes the server-wide nonce
                let ncalls = unsafe { aead::NCALLS };
                let c = unsafe { aead::CALLS[if ncalls >= 1 && ncalls <= aead::REC_CAP { ncalls - 1 } else { 0 }] };
                let mut nonce = [0u8; 24];
                nonce[4..12].copy_from_slice(&gs0.to_le_bytes());
                assert!(!c.decrypt && c.nonce == nonce, "handshake reply not sealed with the server-wide sequence");
                assert!(s.global_sequence == gs0 + 1, "server-wide sequence not advanced after sealing a handshake reply (nonce reuse under the session key)");
            }
            std::mem::forget(s);
        }
    };
}
srv_resp_guard!(srv_resp_guard_00, false, false);
srv_resp_guard!(srv_resp_guard_10, true, false);
srv_resp_guard!(srv_resp_guard_11, true, true);

// ---- C07 / C19: short or unauthentic datagrams from anyone get no answer and change nothing ---------------------
#[kani::proof]
#[kani::unwind(40)]
fn srv_frame_unknown() {
    reset_ghost(0);
    let (mut s, facts) = any_server([true, false]);
    let addr = any_v4();
    kani::assume(Some(addr) != facts[0].map(|f| f.1));
    let gs = s.global_sequence;
    let cs = s.challenge_sequence;
    let mut buf: [u8; 64] = kani::any();
    let n: usize = kani::any();
    kani::assume(n <= 64);
    let r = s.process_packet_internal(addr, &mut buf[..n]);
    // anything shorter than a full connection request from an unknown address: no answer
    match &r {
        Ok(x) => assert!(result_code(x) == 0, "answer to a datagram that carries no connect token"),
        Err(_) => {}
    }
    std::mem::forget(r);
    assert!(s.global_sequence == gs && s.challenge_sequence == cs && s.pending_clients.is_empty(), "state changed by junk from an unknown address");
    std::mem::forget(s);
}

/// from a connected address: a datagram the AEAD rejects changes nothing observable (no timeout refresh, no event)
#[kani::proof]
#[kani::unwind(40)]
fn srv_frame_connected() {
    reset_ghost(2);
    let (mut s, facts) = any_server([true, false]);
    let (_, addr) = facts[0].unwrap();
    let (lr, sq, conf) = {
        let c = s.clients[0].as_ref().unwrap();
        (c.last_packet_received_time, c.sequence, c.confirmed)
    };
    let mut buf: [u8; 64] = kani::any();
    let n: usize = kani::any();
    kani::assume(n <= 64);
    let r = s.process_packet_internal(addr, &mut buf[..n]);
    match &r {
        Ok(x) => assert!(result_code(x) == 0, "unauthentic datagram produced a payload / event / reply"),
        Err(_) => {}
    }
    std::mem::forget(r);
    let c = s.clients[0].as_ref().unwrap();
    assert!(c.last_packet_received_time == lr, "forged packet postponed the timeout");
    assert!(c.sequence == sq && c.confirmed == conf && c.state == ConnectionState::Connected);
    std::mem::forget(s);
}

/// from a connected address, authentic traffic: payload attributed to that slot's id; disconnect frees exactly it
macro_rules! srv_surface {
    ($name:ident, $o0:expr, $k:expr) => {
#[kani::proof]
#[kani::unwind(40)]
fn $name() {
    let (mut s, facts) = any_server([$o0, true]);
    let k: usize = $k;
    let (id, addr) = facts[k].unwrap();
    let rkey = s.clients[k].as_ref().unwrap().receive_key;
    let pid = s.protocol_id;
    reset_ghost(1);
    let body = [6u8; 8];
    let kind: bool = kani::any();
    let mut dgram = [0u8; 64];
    let seq: u64 = kani::any::<u8>() as u64 + 1;
    let er = if kind { Packet::Payload(&body).encode(&mut dgram, pid, Some((seq, &rkey))) } else { Packet::Disconnect.encode(&mut dgram, pid, Some((seq, &rkey))) };
    let n = match &er {
        Ok(n) => *n,
        Err(_) => 0,
    };
    std::mem::forget(er);
    unsafe {
        aead::SEALED[0] = aead::CALLS[0];
        aead::NSEALED = 1;
        aead::NCALLS = 0;
        aead::DEC_MODE = 3;
    }
    let now = s.current_time;
    let r = s.process_packet_internal(addr, &mut dgram[..n]);
    match &r {
        Ok(ServerResult::Payload { client_id, payload }) => {
            assert!(kind && *client_id == id && payload.len() == 8, "payload attributed to another client than the session it authenticated for");
        }
        Ok(ServerResult::ClientDisconnected { client_id, addr: a, .. }) => {
            assert!(!kind && *client_id == id && *a == addr);
        }
        _ => assert!(false, "genuine packet inside the window not surfaced on a connected session"),
    }
    let c = unsafe { aead::CALLS[0] };
    assert!(c.decrypt && c.key == rkey, "opened with another session's key");
    std::mem::forget(r);
    let _ = now;
    if !kind {
        // the disconnect freed exactly this client's slot
        assert!(s.clients[k].is_none(), "client reported disconnected but still in the table");
        if $o0 && k == 1 {
            assert!(s.clients[0].is_some(), "another client's slot was cleared");
        }
    } else {
        assert!(s.clients[k].is_some());
    }
    std::mem::forget(s);
}
    };
}
srv_surface!(srv_surface_11_k0, true, 0);
srv_surface!(srv_surface_11_k1, true, 1);
srv_surface!(srv_surface_01_k1, false, 1);


// ---- C05: a connect token is bound to the first address that used it ---------------------------------------------
macro_rules! tok_entry {
    ($name:ident, $n:expr) => {
        #[kani::proof]
        #[kani::unwind(40)]
        fn $name() {
            let (mut s, _) = any_server([false, false]);
            let mut macs = [[0u8; NETCODE_MAC_BYTES]; $n];
            let mut addrs = [any_v4(); $n];
            let mut i = 0;
            while i < $n {
                macs[i] = kani::any();
                addrs[i] = any_v4();
                s.connect_token_entries[i] = Some(ConnectTokenEntry { time: any_secs(), address: addrs[i], mac: macs[i] });
                i += 1;
            }
            // stored macs pairwise distinct (invariant of the table)
            if $n == 2 {
                kani::assume(macs[0] != macs[1]);
            }
            let new_mac: [u8; NETCODE_MAC_BYTES] = kani::any();
            let new_addr = any_v4();
            let ok = s.find_or_add_connect_token_entry(ConnectTokenEntry { time: s.current_time, address: new_addr, mac: new_mac });
            let mut known: Option<usize> = None;
            let mut i = 0;
            while i < $n {
                if macs[i] == new_mac {
                    known = Some(i);
                }
                i += 1;
            }
            match known {
                Some(i) => {
                    assert!(ok == (addrs[i] == new_addr), "a token already used from one address must be refused from any other, and accepted from its own");
                    // the binding is never rewritten
                    let mut j = 0;
                    while j < $n {
                        match &s.connect_token_entries[j] {
                            Some(e) => assert!(e.mac == macs[j] && e.address == addrs[j], "token entry rewritten by a repeated / foreign request"),
                            None => assert!(false, "token entry lost"),
                        }
                        j += 1;
                    }
                    // ... and no second binding for the same token appears anywhere in the table
                    let mut occupied = 0;
                    let mut j = 0;
                    while j < NETCODE_MAX_CLIENTS * 2 {
                        if s.connect_token_entries[j].is_some() {
                            occupied += 1;
                        }
                        j += 1;
                    }
                    assert!(occupied == $n, "a request with an already known token added a second binding (a later request from that address would then be accepted)");
                }
                None => {
                    assert!(ok, "fresh token refused");
                    let mut found = false;
                    let mut j = 0;
                    while j < NETCODE_MAX_CLIENTS * 2 {
                        if let Some(e) = &s.connect_token_entries[j] {
                            if e.mac == new_mac {
                                assert!(e.address == new_addr);
                                found = true;
                            }
                        }
                        j += 1;
                    }
                    assert!(found, "fresh token not recorded");
                }
            }
            kani::cover!(known.is_some() && !ok, "foreign address refused");
            std::mem::forget(s);
        }
    };
}
tok_entry!(tok_entry_n1, 1);
tok_entry!(tok_entry_n2, 2);

/// C05 / C07: a connection request whose private token does not authenticate changes NOTHING (no token entry,
/// no pending session, no counter) and gets no answer
#[kani::proof]
#[kani::unwind(40)]
fn srv_req_unauth() {
    reset_ghost(2);
    let (mut s, _) = any_server([true, false]);
    let gs = s.global_sequence;
    let cs = s.challenge_sequence;
    let data: [u8; NETCODE_CONNECT_TOKEN_PRIVATE_BYTES] = kani::any();
    let addr = any_v4();
    let r = s.handle_connection_request(addr, kani::any(), kani::any(), kani::any(), kani::any(), data);
    assert!(r.is_err(), "request with an unauthentic token accepted");
    std::mem::forget(r);
    assert!(s.global_sequence == gs && s.challenge_sequence == cs && s.pending_clients.is_empty(), "unauthentic request changed server state");
    let mut j = 0;
    while j < NETCODE_MAX_CLIENTS * 2 {
        assert!(s.connect_token_entries[j].is_none(), "unauthentic request registered a token entry (can lock the genuine owner out)");
        j += 1;
    }
    std::mem::forget(s);
}

/// C07 / C18: a connection-request datagram is never authenticated by decode (no key is used for it); coming
/// from an already connected address it must not count as a sign of life of that client
#[kani::proof]
#[kani::unwind(40)]
fn srv_frame_connected_req() {
    reset_ghost(2);
    let (mut s, facts) = any_server([true, false]);
    let (_, addr) = facts[0].unwrap();
    let lr = s.clients[0].as_ref().unwrap().last_packet_received_time;
    const REQ: usize = 1 + 13 + 8 + 8 + 24 + NETCODE_CONNECT_TOKEN_PRIVATE_BYTES;
    let mut buf: [u8; REQ + 22] = kani::any();
    buf[0] = 0; // packet type 0 = connection request, sent in the clear
    let n: usize = kani::any();
    kani::assume(n >= REQ && n <= REQ + 22);
    let r = s.process_packet_internal(addr, &mut buf[..n]);
    match &r {
        Ok(x) => assert!(result_code(x) == 0, "unauthenticated datagram from a connected address produced a payload / event / reply"),
        Err(_) => {}
    }
    std::mem::forget(r);
    assert!(unsafe { aead::NCALLS } == 0);
    let c = s.clients[0].as_ref().unwrap();
    assert!(c.last_packet_received_time == lr, "an unauthenticated connection-request datagram postponed the client's timeout");
    std::mem::forget(s);
}

/// vacuity witness (must FAIL)
#[kani::proof]
#[kani::unwind(40)]
fn srv_witness() {
    reset_ghost(1);
    let (mut s, facts) = any_server([true, false]);
    let r = s.disconnect(facts[0].unwrap().0);
    if matches!(r, ServerResult::ClientDisconnected { .. }) {
        assert!(false, "witness");
    }
    std::mem::forget(r);
    std::mem::forget(s);
}


// =====================================================================================================================
// CONTRACT variant ("contracts": server.rs calls into packet.rs / token.rs go to the contract functions, sizes shrunk:
// DESIGN section A.7).  One server step per lemma from an arbitrary table state; the datagram's authenticity, kind,
// sequence, the echoed challenge and the connect token are all symbolic (ghost statics of verif_models::contracts).
use crate::packet::verif_kani::VERIF_REQUEST_BYTES;
use crate::verif_models::contracts as ct;

fn ns_any_window() -> ReplayProtection {
    let rp = any_window();
    kani::assume(rp_most_recent(&rp) < (1u64 << 62));
    rp
}

/// declare THE authentic datagram in flight (all of it symbolic, including whether there is one at all)
fn ns_any_auth() {
    unsafe {
        ct::AUTH = kani::any();
        ct::AUTH_KEY = kani::any();
        ct::AUTH_PID = kani::any();
        ct::AUTH_KIND = kani::any();
        ct::AUTH_SEQ = kani::any();
        ct::FORGED_SEQ = kani::any();
        ct::AUTH_A = kani::any();
        ct::AUTH_B = kani::any();
        ct::AUTH_TOKEN = kani::any();
        kani::assume(ct::AUTH_KIND >= 1 && ct::AUTH_KIND <= 6 && ct::AUTH_SEQ < (1u64 << 62));
    }
}

fn ns_slot_facts(s: &NetcodeServer, k: usize) -> Option<(u64, SocketAddr)> {
    s.clients[k].as_ref().map(|c| (c.client_id, c.addr))
}

// ---- C07 / C18 / C04 / C10: one datagram from the address of a CONNECTED client ------------------------------------
macro_rules! ns_frame_connected {
    ($name:ident, $o0:expr, $o1:expr, $k:expr, $len:expr) => {
        #[kani::proof]
        #[kani::unwind(40)]
        fn $name() {
            ct::reset();
            let (mut s, facts) = any_server([$o0, $o1]);
            let k: usize = $k;
            let other: usize = 1 - k;
            let (id, addr) = facts[k].unwrap();
            let win = ns_any_window();
            let (mr0, w_i) = (rp_most_recent(&win), kani::any::<usize>() % WINSZ);
            let ws0 = rp_slot(&win, w_i);
            s.clients[k].as_mut().unwrap().replay_protection = win;
            let (lr, sq, conf, rkey) = {
                let c = s.clients[k].as_ref().unwrap();
                (c.last_packet_received_time, c.sequence, c.confirmed, c.receive_key)
            };
            let pid = s.protocol_id;
            let gs0 = s.global_sequence;
            ns_any_auth();
            let genuine = unsafe { ct::AUTH && ct::AUTH_KEY == rkey && ct::AUTH_PID == pid };
            let mut buf: [u8; $len] = kani::any();
            // replay protection applies to keep-alive / payload / disconnect packets (kinds 4..6)
            let fresh = {
                let c = s.clients[k].as_ref().unwrap();
                (unsafe { ct::AUTH_KIND }) < 4 || !c.replay_protection.already_received(unsafe { ct::AUTH_SEQ })
            };
            let r = s.process_packet_internal(addr, &mut buf[..]);
            let authed = unsafe { ct::DEC_AUTHENTICATED };
            if authed {
                assert!(genuine, "a datagram was accepted that was not sealed under this session's receive key for this protocol id");
                assert!(unsafe { ct::DEC_HAD_WINDOW }, "decoded without the session's replay window");
            }
            let mut disconnected = false;
            match &r {
                Ok(ServerResult::None) | Err(_) => {}
                Ok(ServerResult::Payload { client_id, payload }) => {
                    assert!(authed && unsafe { ct::AUTH_KIND } == 5 && fresh, "payload surfaced from a datagram that is not an authentic fresh payload packet");
                    assert!(*client_id == id, "payload attributed to another client than the session it authenticated for");
                    assert!(payload.len() + 1 + ct::sequence_bytes(unsafe { ct::AUTH_SEQ }) + 16 == $len);
                }
                Ok(ServerResult::ClientDisconnected { client_id, addr: a, payload }) => {
                    assert!(authed && unsafe { ct::AUTH_KIND } == 6 && fresh, "client dropped by a datagram that is not an authentic fresh disconnect packet");
                    assert!(*client_id == id && *a == addr && payload.is_none());
                    disconnected = true;
                }
                Ok(_) => assert!(false, "reply / connect event for a datagram from an already connected address"),
            }
            kani::cover!(matches!(r, Ok(ServerResult::Payload { .. })), "payload surfaced");
            kani::cover!(disconnected, "client disconnect");
            kani::cover!(genuine && !fresh && !authed, "authentic datagram rejected as a replay");
            std::mem::forget(r);
            assert!(unsafe { ct::NENC } == 0 && s.global_sequence == gs0, "something was sealed in response to a datagram from a connected address");
            // the other slot is never touched
            assert!(ns_slot_facts(&s, other) == facts[other], "another client's slot changed");
            if disconnected {
                assert!(s.clients[k].is_none(), "client reported disconnected but still in the table");
            } else {
                let c = s.clients[k].as_ref().unwrap();
                assert!(c.client_id == id && c.addr == addr && c.sequence == sq && c.state == ConnectionState::Connected);
                if !(authed && fresh) {
                    // forged, foreign, mis-typed, replayed or unauthenticated (connection request) datagrams leave no trace
                    assert!(c.last_packet_received_time == lr, "a datagram that did not authenticate postponed the client's timeout");
                    assert!(c.confirmed == conf);
                    assert!(rp_most_recent(&c.replay_protection) == mr0 && rp_slot(&c.replay_protection, w_i) == ws0, "replay window moved by an unauthentic datagram");
                } else {
                    assert!(c.last_packet_received_time == s.current_time, "authentic packet did not refresh the timeout clock");
                }
            }
            std::mem::forget(s);
        }
    };
}
const WINSZ: usize = crate::replay_protection::verif_kani::WIN;
ns_frame_connected!(ns_frame_connected_11_k0, true, true, 0, 40);
ns_frame_connected!(ns_frame_connected_11_k1, true, true, 1, 40);
ns_frame_connected!(ns_frame_connected_01_k1, false, true, 1, 40);
ns_frame_connected!(ns_frame_connected_10_k0_req, true, false, 0, VERIF_REQUEST_BYTES);

// ---- C18 / C17: update_client ------------------------------------------------------------------------------------
macro_rules! ns_update_client {
    ($name:ident, $o0:expr, $o1:expr, $k:expr) => {
        #[kani::proof]
        #[kani::unwind(40)]
        fn $name() {
            ct::reset();
            let (mut s, facts) = any_server([$o0, $o1]);
            let k: usize = $k;
            let other: usize = 1 - k;
            let (id, addr) = facts[k].unwrap();
            let (timeout, last_recv, last_send, sq, key) = {
                let c = s.clients[k].as_ref().unwrap();
                (c.timeout_seconds, c.last_packet_received_time, c.last_packet_send_time, c.sequence, c.send_key)
            };
            let now = s.current_time;
            let pid = s.protocol_id;
            let maxc = s.max_clients;
            let r = s.update_client(id);
            let timed_out = timeout > 0 && last_recv + Duration::from_secs(timeout as u64) < now;
            let due = last_send + NETCODE_SEND_RATE <= now;
            let e = unsafe { ct::ENC[0] };
            let nenc = unsafe { ct::NENC };
            let mut gone = false;
            match &r {
                ServerResult::ClientDisconnected { client_id, addr: a, payload } => {
                    assert!(timed_out, "live client timed out");
                    assert!(*client_id == id && *a == addr && payload.is_some());
                    assert!(nenc == 1 && e.kind == 6 && e.key == key && e.sequence == sq && e.protocol_id == pid, "disconnect not sealed under the session's (send key, sequence)");
                    gone = true;
                }
                ServerResult::PacketToSend { addr: a, payload } => {
                    assert!(!timed_out, "silent client kept alive");
                    assert!(due, "keep-alive before the send timer elapsed");
                    assert!(*a == addr && payload.len() == e.len && e.len <= 33);
                    assert!(nenc == 1 && e.kind == 4 && e.key == key && e.sequence == sq && e.protocol_id == pid, "keep-alive not sealed under the session's (send key, sequence)");
                    assert!(e.a == k as u64 && e.b == maxc as u64);
                }
                ServerResult::None => {
                    assert!(!timed_out, "silent client not disconnected at update");
                    assert!(!due, "keep-alive missing although the send timer elapsed");
                    assert!(nenc == 0);
                }
                _ => assert!(false),
            }
            kani::cover!(timed_out, "timeout");
            kani::cover!(matches!(r, ServerResult::PacketToSend { .. }), "keep alive");
            let sent = matches!(r, ServerResult::PacketToSend { .. });
            std::mem::forget(r);
            assert!(ns_slot_facts(&s, other) == facts[other], "another client's slot changed");
            if gone {
                assert!(s.clients[k].is_none(), "timed-out client still in the table");
            } else {
                let c = s.clients[k].as_ref().unwrap();
                assert!(c.client_id == id && c.last_packet_received_time == last_recv, "update refreshed the receive clock");
                assert!(c.sequence == if sent { sq + 1 } else { sq }, "session sequence (nonce) not advanced exactly once per sealed packet");
                assert!(c.last_packet_send_time == if sent { now } else { last_send });
            }
            std::mem::forget(s);
        }
    };
}
ns_update_client!(ns_update_client_11_k0, true, true, 0);
ns_update_client!(ns_update_client_11_k1, true, true, 1);
ns_update_client!(ns_update_client_01_k1, false, true, 1);

/// ids that are not connected: update_client / disconnect / lookups report nothing and seal nothing
#[kani::proof]
#[kani::unwind(40)]
fn ns_unknown_id() {
    ct::reset();
    let (mut s, facts) = any_server([true, false]);
    let id: u64 = kani::any();
    kani::assume(Some(id) != facts[0].map(|f| f.0));
    let r = s.update_client(id);
    assert!(matches!(r, ServerResult::None));
    std::mem::forget(r);
    let r = s.disconnect(id);
    assert!(matches!(r, ServerResult::None));
    std::mem::forget(r);
    let data = [1u8; 4];
    let r = s.generate_payload_packet(id, &data);
    assert!(r.is_err());
    std::mem::forget(r);
    assert!(unsafe { ct::NENC } == 0);
    assert!(!s.is_client_connected(id) && s.client_addr(id).is_none() && s.user_data(id).is_none());
    assert!(ns_slot_facts(&s, 0) == facts[0]);
    std::mem::forget(s);
}

// ---- C17 / C10 / C13: generate_payload_packet ------------------------------------------------------------------
macro_rules! ns_payload_route {
    ($name:ident, $o0:expr, $o1:expr, $k:expr, $n:expr) => {
        #[kani::proof]
        #[kani::unwind(40)]
        fn $name() {
            ct::reset();
            let (mut s, facts) = any_server([$o0, $o1]);
            let k: usize = $k;
            let (id, addr) = facts[k].unwrap();
            let (sq, key) = {
                let c = s.clients[k].as_ref().unwrap();
                (c.sequence, c.send_key)
            };
            let pid = s.protocol_id;
            let now = s.current_time;
            let data = [5u8; $n];
            let r = s.generate_payload_packet(id, &data);
            let out = match &r {
                Ok((a, buf)) => Some((*a, buf.len())),
                Err(_) => None,
            };
            std::mem::forget(r);
            let e = unsafe { ct::ENC[0] };
            if $n > NETCODE_MAX_PAYLOAD_BYTES {
                assert!(out.is_none() && unsafe { ct::NENC } == 0, "payload above the limit accepted");
            } else {
                let (a, len) = out.unwrap();
                assert!(a == addr, "payload routed to another address than the session authenticated for this id");
                assert!(unsafe { ct::NENC } == 1 && e.kind == 5 && e.key == key && e.sequence == sq && e.protocol_id == pid, "payload not sealed under the session's (send key, sequence)");
                assert!(len == e.len && len <= NETCODE_MAX_PACKET_BYTES);
                let c = s.clients[k].as_ref().unwrap();
                assert!(c.sequence == sq + 1, "session sequence (nonce) not advanced");
                assert!(c.last_packet_send_time == now);
            }
            assert!(ns_slot_facts(&s, 1 - k) == facts[1 - k]);
            std::mem::forget(s);
        }
    };
}
ns_payload_route!(ns_payload_route_11_k0, true, true, 0, 8);
ns_payload_route!(ns_payload_route_11_k1, true, true, 1, 8);
ns_payload_route!(ns_payload_route_max, false, true, 1, NETCODE_MAX_PAYLOAD_BYTES);
ns_payload_route!(ns_payload_route_over, false, true, 1, NETCODE_MAX_PAYLOAD_BYTES + 1);

// ---- C18: pending sessions expire with their token ---------------------------------------------------------------
#[kani::proof]
#[kani::unwind(40)]
fn ns_update_pending() {
    ct::reset();
    let (mut s, facts) = any_server([true, false]);
    let addr = any_v4();
    kani::assume(Some(addr) != facts[0].map(|f| f.1));
    let now = s.current_time;
    let pending = any_connection(addr, ConnectionState::PendingResponse, now);
    let expire = pending.expire_timestamp;
    s.pending_clients.slots[0] = Some((addr, pending));
    s.pending_clients.len = 1;
    let d = any_secs();
    s.update(d);
    assert!(s.current_time == now + d);
    let still = s.pending_clients.contains_key(&addr);
    assert!(still == !((now + d).as_secs() > expire), "a pending session must be dropped exactly when its connect token has expired");
    assert!(ns_slot_facts(&s, 0) == facts[0] && unsafe { ct::NENC } == 0);
    kani::cover!(!still, "expired");
    kani::cover!(still, "kept");
    std::mem::forget(s);
}

// ---- C07 / C19: datagrams from an address that is neither connected nor pending ----------------------------------
#[kani::proof]
#[kani::unwind(40)]
fn ns_frame_unknown() {
    ct::reset();
    let (mut s, facts) = any_server([true, false]);
    let addr = any_v4();
    kani::assume(Some(addr) != facts[0].map(|f| f.1));
    let (gs, cs) = (s.global_sequence, s.challenge_sequence);
    ns_any_auth();
    let mut buf: [u8; 40] = kani::any();
    let n: usize = kani::any();
    kani::assume(n <= 40);
    let r = s.process_packet_internal(addr, &mut buf[..n]);
    // shorter than a connection request: whatever it claims to be, there is no session to authenticate it against
    assert!(r.is_err(), "answer / event for a datagram that carries no connect token and belongs to no session");
    std::mem::forget(r);
    assert!(unsafe { ct::NENC } == 0 && !unsafe { ct::DEC_AUTHENTICATED });
    assert!(s.global_sequence == gs && s.challenge_sequence == cs && s.pending_clients.is_empty() && ns_slot_facts(&s, 0) == facts[0], "state changed by junk from an unknown address");
    std::mem::forget(s);
}

// ---- C05 / C19 / C17 / C10 / C18: the connection request ----------------------------------------------------------
fn ns_any_token() {
    unsafe {
        ct::TOK = kani::any();
        ct::TOK_KEY = kani::any();
        ct::TOK_PID = kani::any();
        ct::TOK_EXPIRE = kani::any();
        ct::TOK_XNONCE = kani::any();
        ct::TOK_DATA = kani::any();
        ct::TOK_ID = kani::any();
        ct::TOK_TIMEOUT = kani::any();
        ct::TOK_ADDR0 = if kani::any() { Some(any_v4()) } else { None };
        ct::TOK_ADDR1 = if kani::any() { Some(any_v4()) } else { None };
        ct::TOK_C2S = kani::any();
        ct::TOK_S2C = kani::any();
        ct::TOK_UD = kani::any();
    }
}
fn ns_any_request() {
    unsafe {
        ct::REQ_VERSION = kani::any();
        ct::REQ_PID = kani::any();
        ct::REQ_EXPIRE = kani::any();
        ct::REQ_XNONCE = kani::any();
        ct::REQ_DATA = kani::any();
        ct::REQ_PARSES = kani::any();
    }
}

macro_rules! ns_req_guard {
    ($name:ident, $o0:expr, $o1:expr, $entries:expr, $pend:expr) => {
        #[kani::proof]
        #[kani::unwind(40)]
        fn $name() {
            ct::reset();
            let (mut s, facts) = any_server([$o0, $o1]);
            s.secure = kani::any();
            s.max_clients = if kani::any() { 2 } else { 1 };
            let addr = any_v4();
            let now = s.current_time;
            // table of used tokens: $entries entries with arbitrary macs / addresses
            let mut e_mac = [0u8; NETCODE_MAC_BYTES];
            let mut e_addr = addr;
            if $entries == 1 {
                e_mac = kani::any();
                e_addr = any_v4();
                s.connect_token_entries[0] = Some(ConnectTokenEntry { time: any_secs(), address: e_addr, mac: e_mac });
            }
            // optionally a session is already pending at this address (a repeated request)
            let mut pend_id = 0u64;
            if $pend {
                let p = any_connection(addr, ConnectionState::PendingResponse, now);
                pend_id = p.client_id;
                s.pending_clients.slots[0] = Some((addr, p));
                s.pending_clients.len = 1;
            }
            ns_any_token();
            ns_any_request();
            let (gs0, cs0) = (s.global_sequence, s.challenge_sequence);
            let connected = ($o0 as usize) + ($o1 as usize);
            let mut buf: [u8; VERIF_REQUEST_BYTES] = kani::any();
            kani::assume(buf[0] & 0xF == 0);
            let addr_connected = facts[0].map(|f| f.1) == Some(addr) || facts[1].map(|f| f.1) == Some(addr);
            kani::assume(!addr_connected); // datagrams from connected addresses: ns_frame_connected_*
            let r = s.process_packet_internal(addr, &mut buf[..]);
            let opened = unsafe { ct::TOK_OPENED };
            let mut replied = 0usize;
            match &r {
                Ok(ServerResult::PacketToSend { addr: a, payload }) => {
                    assert!(*a == addr, "handshake reply sent to another address than the request's source");
                    assert!(payload.len() < VERIF_REQUEST_BYTES, "reply not smaller than the request that triggered it");
                    replied = payload.len();
                }
                Ok(ServerResult::None) | Err(_) => {}
                Ok(_) => assert!(false, "a connection request produced a payload / connect / disconnect event"),
            }
            std::mem::forget(r);
            let nenc = unsafe { ct::NENC };
            let e = unsafe { ct::ENC[0] };
            let id_connected = facts[0].map(|f| f.0) == Some(unsafe { ct::TOK_ID }) || facts[1].map(|f| f.0) == Some(unsafe { ct::TOK_ID });
            let listed = unsafe { (ct::TOK_ADDR0.is_some() && ct::TOK_ADDR0 == Some(s.public_addresses[0])) || (ct::TOK_ADDR1.is_some() && ct::TOK_ADDR1 == Some(s.public_addresses[0])) };
            let mut mac = [0u8; NETCODE_MAC_BYTES];
            mac.copy_from_slice(unsafe { &ct::REQ_DATA[NETCODE_CONNECT_TOKEN_PRIVATE_BYTES - NETCODE_MAC_BYTES..] });
            let foreign_binding = $entries == 1 && e_mac == mac && e_addr != addr;
            let valid = unsafe { ct::REQ_PARSES && ct::REQ_VERSION == *NETCODE_VERSION_INFO && ct::REQ_PID == s.protocol_id && now.as_secs() < ct::REQ_EXPIRE }
                && unsafe { ct::TOK && ct::TOK_KEY == s.connect_key && ct::TOK_PID == s.protocol_id && ct::TOK_EXPIRE == ct::REQ_EXPIRE && ct::TOK_XNONCE == ct::REQ_XNONCE && ct::TOK_DATA == ct::REQ_DATA }
                && (!s.secure || listed);
            if replied > 0 {
                assert!(valid, "handshake reply to a request that is malformed, expired, for another protocol, or whose token is not authentic / not for this server");
                assert!(opened && !id_connected && !foreign_binding, "reply although the client id is connected or the token is bound to another address");
                assert!(nenc == 1 && e.len == replied && e.protocol_id == s.protocol_id);
                assert!(e.key == unsafe { ct::TOK_S2C } && e.sequence == gs0, "handshake reply not sealed under (token's server-to-client key, server-wide sequence)");
                assert!(s.global_sequence == gs0 + 1, "server-wide sequence not advanced after sealing a handshake reply (nonce reuse)");
                if e.kind == 1 {
                    assert!(connected >= s.max_clients, "denied although a slot is free");
                    assert!(!s.pending_clients.contains_key(&addr), "denied request left a pending session");
                    assert!(s.challenge_sequence == cs0);
                } else {
                    assert!(e.kind == 2 && connected < s.max_clients, "challenge issued although the server is full");
                    assert!(s.challenge_sequence == cs0 + 1 && e.a == cs0 + 1, "challenge sequence not fresh");
                    let g = unsafe { (ct::NGEN, ct::GEN_ID, ct::GEN_UD, ct::GEN_SEQ, ct::GEN_KEY) };
                    assert!(g.0 == 1 && g.1 == unsafe { ct::TOK_ID } && g.2 == unsafe { ct::TOK_UD } && g.3 == cs0 + 1 && g.4 == s.challenge_key, "challenge does not seal this token's (client id, user data) under the challenge key");
                    let p = s.pending_clients.get(&addr).unwrap();
                    if $pend {
                        assert!(p.client_id == pend_id, "an existing pending session was replaced");
                    } else {
                        assert!(p.client_id == unsafe { ct::TOK_ID } && p.addr == addr && p.state == ConnectionState::PendingResponse);
                        assert!(p.send_key == unsafe { ct::TOK_S2C } && p.receive_key == unsafe { ct::TOK_C2S } && p.user_data == unsafe { ct::TOK_UD });
                        assert!(p.timeout_seconds == unsafe { ct::TOK_TIMEOUT } && p.expire_timestamp == unsafe { ct::REQ_EXPIRE } && p.sequence == 0 && !p.confirmed);
                    }
                }
            } else {
                assert!(nenc == 0 && s.global_sequence == gs0 && s.challenge_sequence == cs0, "counters moved without a reply");
                if !$pend {
                    assert!(s.pending_clients.is_empty(), "pending session created without a challenge");
                }
                // progress (C18): a valid request from a client that is not connected, with a usable token, is answered
                if valid && !id_connected && !foreign_binding {
                    assert!(false, "valid connection request ignored");
                }
            }
            if !opened {
                // a request whose token did not authenticate registers nothing
                let mut j = 0;
                while j < NETCODE_MAX_CLIENTS * 2 {
                    match &s.connect_token_entries[j] {
                        Some(en) => assert!($entries == 1 && j == 0 && en.mac == e_mac && en.address == e_addr, "unauthentic request registered / rewrote a token entry"),
                        None => assert!(!($entries == 1 && j == 0), "token entry lost"),
                    }
                    j += 1;
                }
            }
            assert!(ns_slot_facts(&s, 0) == facts[0] && ns_slot_facts(&s, 1) == facts[1], "connection table changed by a connection request");
            if connected < 2 {
                kani::cover!(replied > 0 && e.kind == 2, "challenge");
            }
            if connected > 0 {
                kani::cover!(replied > 0 && e.kind == 1, "denied");
            }
            kani::cover!(valid && replied == 0, "valid but refused");
            std::mem::forget(s);
        }
    };
}
ns_req_guard!(ns_req_guard_00_e0, false, false, 0, false);
ns_req_guard!(ns_req_guard_10_e1, true, false, 1, false);
ns_req_guard!(ns_req_guard_11_e0, true, true, 0, false);
ns_req_guard!(ns_req_guard_11_e1, true, true, 1, false);
ns_req_guard!(ns_req_guard_10_e0_pend, true, false, 0, true);

// ---- C05 / C10 / C17 / C19 / C18: the connection response -------------------------------------------------------
macro_rules! ns_resp_guard {
    ($name:ident, $o0:expr, $o1:expr) => {
        #[kani::proof]
        #[kani::unwind(40)]
        fn $name() {
            ct::reset();
            let (mut s, facts) = any_server([$o0, $o1]);
            let addr = any_v4();
            kani::assume(facts[0].map(|f| f.1) != Some(addr) && facts[1].map(|f| f.1) != Some(addr));
            let now = s.current_time;
            let mut pending = any_connection(addr, ConnectionState::PendingResponse, now);
            pending.user_data = kani::any();
            pending.replay_protection = ns_any_window();
            let (id_a, ud_a, rkey, skey, psq) = (pending.client_id, pending.user_data, pending.receive_key, pending.send_key, pending.sequence);
            s.pending_clients.slots[0] = Some((addr, pending));
            s.pending_clients.len = 1;
            ns_any_auth();
            unsafe {
                // the one challenge in existence that opens under CHAL_KEY (issued for ANY id with ANY user data)
                ct::CHAL = kani::any();
                ct::CHAL_KEY = kani::any();
                ct::CHAL_SEQ = kani::any();
                ct::CHAL_DATA = kani::any();
                ct::CHAL_ID = kani::any();
                ct::CHAL_UD = kani::any();
            }
            let pid = s.protocol_id;
            let gs0 = s.global_sequence;
            let maxc = s.max_clients;
            let chkey = s.challenge_key;
            let connected_before = [facts[0].map(|f| f.0), facts[1].map(|f| f.0)];
            const LEN: usize = 1 + 8 + 8 + NETCODE_CHALLENGE_TOKEN_BYTES + 16;
            let mut buf: [u8; LEN] = kani::any();
            let prefix = buf[0];
            let r = s.process_packet_internal(addr, &mut buf[..]);
            // the datagram presented IS the authentic response of this session (prefix byte = kind 3 | sequence length)
            let genuine_outer = unsafe { ct::AUTH && ct::AUTH_KEY == rkey && ct::AUTH_PID == pid && ct::AUTH_KIND == 3 }
                && prefix & 0xF == 3 && (prefix >> 4) as usize == ct::sequence_bytes(unsafe { ct::AUTH_SEQ });
            let own_challenge = unsafe {
                ct::CHAL && ct::CHAL_KEY == chkey && ct::AUTH_A == ct::CHAL_SEQ && ct::AUTH_TOKEN == ct::CHAL_DATA && ct::CHAL_ID == id_a && ct::CHAL_UD == ud_a
            };
            let e = unsafe { ct::ENC[0] };
            let nenc = unsafe { ct::NENC };
            let free = !($o0 && $o1);
            let mut connected = false;
            let mut replied = false;
            match &r {
                Ok(ServerResult::ClientConnected { client_id, addr: a, user_data, payload }) => {
                    assert!(*a == addr, "connected at another address than the pending session's");
                    assert!(*client_id == id_a, "connected under an id other than the pending session's");
                    assert!(genuine_outer, "connected by a response that is not authentic for the pending session");
                    assert!(own_challenge, "connected by a response that does not echo the challenge issued for THIS session (id and user data)");
                    assert!(**user_data == ud_a, "reported user data is not the data sealed in this session's token");
                    assert!(connected_before[0] != Some(*client_id) && connected_before[1] != Some(*client_id), "duplicate client id in the connection table");
                    assert!(free, "connected although every slot was taken");
                    assert!(nenc == 1 && e.kind == 4 && e.key == skey && e.sequence == psq && e.len == payload.len() && e.b == maxc as u64, "first keep-alive not sealed under the session's (send key, sequence)");
                    connected = true;
                }
                Ok(ServerResult::PacketToSend { addr: a, payload }) => {
                    assert!(*a == addr && payload.len() < LEN, "reply to another address / amplification");
                    assert!(genuine_outer && own_challenge && !free, "denied reply although the response was not valid or a slot was free");
                    assert!(nenc == 1 && e.kind == 1 && e.key == skey && e.sequence == gs0, "denied reply not sealed under (session send key, server-wide sequence)");
                    replied = true;
                }
                Ok(ServerResult::None) | Err(_) => {}
                Ok(_) => assert!(false, "payload / disconnect event from a pending address"),
            }
            if free {
                kani::cover!(connected, "connects");
            } else {
                kani::cover!(replied, "denied");
            }
            std::mem::forget(r);
            assert!(s.global_sequence == if replied { gs0 + 1 } else { gs0 }, "server-wide sequence must advance exactly when a handshake reply was sealed with it (nonce reuse under the session key otherwise)");
            if connected {
                assert!(!s.pending_clients.contains_key(&addr), "session both pending and connected");
                let slot = if $o0 { 1 } else { 0 };
                let c = s.clients[slot].as_ref().unwrap();
                assert!(c.client_id == id_a && c.addr == addr && c.state == ConnectionState::Connected && c.sequence == psq + 1 && c.send_key == skey && c.receive_key == rkey);
                assert!(c.last_packet_received_time == now && c.last_packet_send_time == now, "a newly connected session must start its timeout period at the response that connected it");
                assert!(ns_slot_facts(&s, 1 - slot) == facts[1 - slot]);
            } else {
                assert!(ns_slot_facts(&s, 0) == facts[0] && ns_slot_facts(&s, 1) == facts[1], "connection table changed without a connect event");
                assert!(nenc == if replied { 1 } else { 0 });
                // progress (C18): an authentic, fresh response with this session's own challenge connects when a slot is free
                let id_taken = connected_before[0] == Some(id_a) || connected_before[1] == Some(id_a);
                if genuine_outer && own_challenge && free && !id_taken {
                    assert!(false, "valid connection response did not connect the client");
                }
            }
            std::mem::forget(s);
        }
    };
}
ns_resp_guard!(ns_resp_guard_00, false, false);
ns_resp_guard!(ns_resp_guard_10, true, false);
ns_resp_guard!(ns_resp_guard_01, false, true);
ns_resp_guard!(ns_resp_guard_11, true, true);

/// vacuity witness of the contract variant (must FAIL)
#[kani::proof]
#[kani::unwind(40)]
fn ns_witness() {
    ct::reset();
    let (mut s, facts) = any_server([true, false]);
    let r = s.update_client(facts[0].unwrap().0);
    if unsafe { ct::NENC } == 1 {
        assert!(false, "witness");
    }
    std::mem::forget(r);
    std::mem::forget(s);
}

// ---- C18 / C10: the client limit can be raised at run time: the slots must follow (F12) ------------------------
macro_rules! ns_set_max_clients {
    ($name:ident, $n:expr) => {
        #[kani::proof]
        #[kani::unwind(40)]
        fn $name() {
            ct::reset();
            unsafe { ONE_SLOT = true };
            let (mut s, facts) = any_server([true, true]);
            let n: usize = $n; // concrete per instance: resizing a Vec to a symbolic length is a symbolic-size copy
            s.set_max_clients(n);
            let want = if n < NETCODE_MAX_CLIENTS { n } else { NETCODE_MAX_CLIENTS };
            assert!(s.max_clients == want);
            assert!(s.clients.len() >= s.max_clients, "the limit was raised but there is no slot for the additional clients: valid handshakes get denied below the limit");
            assert!(s.clients.len() >= 1 && ns_slot_facts(&s, 0) == facts[0], "existing session disturbed by changing the limit");
            if s.clients.len() > 1 {
                assert!(s.clients[1].is_none());
            }
            std::mem::forget(s);
        }
    };
}
ns_set_max_clients!(ns_set_max_clients_n0, 0);
ns_set_max_clients!(ns_set_max_clients_n1, 1);
ns_set_max_clients!(ns_set_max_clients_n2, 2);
ns_set_max_clients!(ns_set_max_clients_n9, 9);
