// Harnesses for renetcode/src/server.rs  (C05, C07, C10, C17, C18, C19)
// Variant "small": NETCODE_MAX_CLIENTS literal rewritten to 2 (=> 2 client slots, 4 token entries) and model
// HashMap; the AEAD primitive is the recording identity cipher of models/chacha.rs.
// Rules (measured): never drop a NetcodeError (io::Error drop glue) -> call process_packet_internal and
// mem::forget the Result; observe through the returned ServerResult + pre-state facts.
use super::*;
use crate::replay_protection::verif_kani::{any_window, rp_most_recent};
use crate::token::PrivateConnectToken;
use crate::verif_models::chacha as aead;
use crate::{NETCODE_CHALLENGE_TOKEN_BYTES, NETCODE_CONNECT_TOKEN_PRIVATE_BYTES};
use std::net::{IpAddr, Ipv4Addr};

fn reset_ghost(mode: u8) {
    unsafe {
        aead::NCALLS = 0;
        aead::DEC_MODE = mode;
        aead::WIDX = 0;
        aead::NSEALED = 0;
    }
}

fn any_v4() -> SocketAddr {
    let ip: [u8; 4] = kani::any();
    SocketAddr::new(IpAddr::V4(Ipv4Addr::from(ip)), kani::any())
}
fn any_secs() -> Duration {
    let s: u64 = kani::any();
    kani::assume(s < (1 << 40));
    Duration::from_secs(s)
}

fn any_connection(addr: SocketAddr, state: ConnectionState, now: Duration) -> Connection {
    let last_recv = any_secs();
    let last_send = any_secs();
    kani::assume(last_recv <= now && last_send <= now);
    let sequence: u64 = kani::any();
    kani::assume(sequence < (1u64 << 62));
    Connection {
        confirmed: kani::any(),
        client_id: kani::any(),
        state,
        send_key: kani::any(),
        receive_key: kani::any(),
        user_data: [0x33; NETCODE_USER_DATA_BYTES],
        addr,
        last_packet_received_time: last_recv,
        last_packet_send_time: last_send,
        timeout_seconds: kani::any(),
        sequence,
        expire_timestamp: kani::any(),
        replay_protection: ReplayProtection::new(),
    }
}

/// server with 2 slots; `occ` = which slots hold a connected client (fixed per instance)
fn any_server(occ: [bool; 2]) -> (NetcodeServer, [Option<(u64, SocketAddr)>; 2]) {
    let now = any_secs();
    let mut facts: [Option<(u64, SocketAddr)>; 2] = [None; 2];
    let a0 = any_v4();
    let a1 = any_v4();
    let c0 = if occ[0] { Some(any_connection(a0, ConnectionState::Connected, now)) } else { None };
    let c1 = if occ[1] { Some(any_connection(a1, ConnectionState::Connected, now)) } else { None };
    if let Some(c) = &c0 {
        facts[0] = Some((c.client_id, c.addr));
    }
    if let Some(c) = &c1 {
        facts[1] = Some((c.client_id, c.addr));
    }
    // Inv_T: ids and addresses of connected clients are pairwise distinct
    if let (Some((i0, ad0)), Some((i1, ad1))) = (facts[0], facts[1]) {
        kani::assume(i0 != i1 && ad0 != ad1);
    }
    let global_sequence: u64 = kani::any();
    kani::assume(global_sequence >= (1u64 << 63) && global_sequence < u64::MAX - 8);
    let s = NetcodeServer {
        clients: vec![c0, c1].into_boxed_slice(),
        pending_clients: HashMap::new(),
        connect_token_entries: Box::new([None; NETCODE_MAX_CLIENTS * 2]),
        protocol_id: kani::any(),
        connect_key: kani::any(),
        max_clients: 2,
        challenge_sequence: kani::any::<u32>() as u64,
        challenge_key: kani::any(),
        public_addresses: vec![any_v4()],
        current_time: now,
        global_sequence,
        secure: true,
        out: [0u8; NETCODE_MAX_PACKET_BYTES],
    };
    (s, facts)
}

fn result_code(r: &ServerResult) -> u8 {
    match r {
        ServerResult::None => 0,
        ServerResult::PacketToSend { .. } => 1,
        ServerResult::Payload { .. } => 2,
        ServerResult::ClientConnected { .. } => 3,
        ServerResult::ClientDisconnected { .. } => 4,
    }
}

// ---- C17: nonce spaces.  Handshake replies are sealed under a session's send key with the server-wide
// global_sequence, the session's own packets with its counter starting at 0: the two spaces must be disjoint,
// i.e. the global counter must start (and stay) at or above 2^63 as in the reference implementation.
#[kani::proof]
#[kani::unwind(40)]
fn srv_nonce_init() {
    reset_ghost(1);
    let s = NetcodeServer::new(ServerConfig {
        current_time: any_secs(),
        max_clients: 2,
        protocol_id: kani::any(),
        public_addresses: vec![any_v4()],
        authentication: ServerAuthentication::Secure { private_key: kani::any() },
    });
    assert!(s.global_sequence >= (1u64 << 63), "handshake replies share the nonce space of the session counter (both start at 0 under the same key)");
    assert!(s.clients.len() == 2 && s.clients[0].is_none() && s.clients[1].is_none() && s.pending_clients.is_empty());
    assert!(s.max_clients == 2 && s.challenge_sequence == 0);
    std::mem::forget(s);
}

// ---- C10 / C17: disconnect(id) ----------------------------------------------------------------------------
macro_rules! srv_disconnect {
    ($name:ident, $o0:expr, $o1:expr) => {
        #[kani::proof]
        #[kani::unwind(40)]
        fn $name() {
            reset_ghost(1);
            let (mut s, facts) = any_server([$o0, $o1]);
            let id: u64 = kani::any();
            let seqs = [s.clients[0].as_ref().map(|c| (c.sequence, c.send_key)), s.clients[1].as_ref().map(|c| (c.sequence, c.send_key))];
            let hit = if facts[0].map(|f| f.0) == Some(id) { Some(0) } else if facts[1].map(|f| f.0) == Some(id) { Some(1) } else { None };
            let r = s.disconnect(id);
            match (&r, hit) {
                (ServerResult::ClientDisconnected { client_id, addr, payload }, Some(k)) => {
                    assert!(*client_id == id && *addr == facts[k].unwrap().1, "disconnect reported for another session than the one authenticated for this id");
                    assert!(payload.is_some());
                    let c = unsafe { aead::CALLS[0] };
                    let (sq, key) = seqs[k].unwrap();
                    let mut nonce = [0u8; 24];
                    nonce[4..12].copy_from_slice(&sq.to_le_bytes());
                    assert!(!c.decrypt && c.key == key && c.nonce == nonce, "disconnect packet not sealed under the session's (send key, sequence)");
                }
                (ServerResult::None, None) => {}
                _ => assert!(false, "disconnect event does not match the connection table"),
            }
            kani::cover!(hit.is_some(), "client found");
            std::mem::forget(r);
            std::mem::forget(s);
        }
    };
}
srv_disconnect!(srv_disconnect_11, true, true);
srv_disconnect!(srv_disconnect_01, false, true);

// ---- C18 / C17: update_client: timeout exact, keep-alive timer, nonce ----------------------------------------
#[kani::proof]
#[kani::unwind(40)]
fn srv_update_client() {
    reset_ghost(1);
    let (mut s, facts) = any_server([true, true]);
    let k: usize = if kani::any() { 0 } else { 1 };
    let (id, addr) = facts[k].unwrap();
    let (timeout, last_recv, last_send, sq, key) = {
        let c = s.clients[k].as_ref().unwrap();
        (c.timeout_seconds, c.last_packet_received_time, c.last_packet_send_time, c.sequence, c.send_key)
    };
    let now = s.current_time;
    let r = s.update_client(id);
    let timed_out = timeout > 0 && last_recv + Duration::from_secs(timeout as u64) < now;
    let mut nonce = [0u8; 24];
    nonce[4..12].copy_from_slice(&sq.to_le_bytes());
    match &r {
        ServerResult::ClientDisconnected { client_id, addr: a, .. } => {
            assert!(timed_out, "live client timed out");
            assert!(*client_id == id && *a == addr);
            let c = unsafe { aead::CALLS[0] };
            assert!(c.key == key && c.nonce == nonce);
        }
        ServerResult::PacketToSend { addr: a, payload } => {
            assert!(!timed_out, "silent client kept alive");
            assert!(last_send + NETCODE_SEND_RATE <= now, "keep-alive before the send timer elapsed");
            assert!(*a == addr && payload.len() <= 33);
            let c = unsafe { aead::CALLS[0] };
            assert!(c.key == key && c.nonce == nonce, "keep-alive not sealed under the session's (send key, sequence)");
        }
        ServerResult::None => {
            assert!(!timed_out, "silent client not disconnected at update");
            assert!(!(last_send + NETCODE_SEND_RATE <= now), "keep-alive missing although the send timer elapsed");
        }
        _ => assert!(false),
    }
    kani::cover!(timed_out, "timeout");
    kani::cover!(matches!(r, ServerResult::PacketToSend { .. }), "keep alive");
    std::mem::forget(r);
    std::mem::forget(s);
}

/// update_client for an id that is not connected reports nothing (no disconnect without a connect)
#[kani::proof]
#[kani::unwind(40)]
fn srv_update_unknown() {
    reset_ghost(1);
    let (mut s, facts) = any_server([true, false]);
    let id: u64 = kani::any();
    kani::assume(Some(id) != facts[0].map(|f| f.0));
    let r = s.update_client(id);
    assert!(matches!(r, ServerResult::None));
    std::mem::forget(r);
    let r = s.disconnect(id);
    assert!(matches!(r, ServerResult::None));
    std::mem::forget(r);
    assert!(!s.is_client_connected(id) && s.client_addr(id).is_none() && s.user_data(id).is_none());
    std::mem::forget(s);
}

// ---- C10 / C17 / C04: generate_payload_packet routes by id to the authenticated session ---------------------------
#[kani::proof]
#[kani::unwind(40)]
fn srv_payload_route() {
    reset_ghost(1);
    let (mut s, facts) = any_server([true, true]);
    let id: u64 = kani::any();
    let pre = [s.clients[0].as_ref().map(|c| (c.sequence, c.send_key)), s.clients[1].as_ref().map(|c| (c.sequence, c.send_key))];
    let hit = if facts[0].map(|f| f.0) == Some(id) { Some(0) } else if facts[1].map(|f| f.0) == Some(id) { Some(1) } else { None };
    let data = [5u8; 32];
    let n: usize = kani::any();
    kani::assume(n <= 32);
    let r = s.generate_payload_packet(id, &data[..n]);
    let out = match &r {
        Ok((a, buf)) => Some((*a, buf.len())),
        Err(_) => None,
    };
    std::mem::forget(r);
    match (out, hit) {
        (Some((a, len)), Some(k)) => {
            assert!(a == facts[k].unwrap().1, "payload routed to another address than the session authenticated for this id");
            let (sq, key) = pre[k].unwrap();
            let c = unsafe { aead::CALLS[0] };
            let mut nonce = [0u8; 24];
            nonce[4..12].copy_from_slice(&sq.to_le_bytes());
            assert!(!c.decrypt && c.key == key && c.nonce == nonce && c.len == n, "payload not sealed under the session's (send key, sequence)");
            assert!(len <= n + 25);
            assert!(s.clients[k].as_ref().unwrap().sequence == sq + 1, "session sequence (nonce) not advanced");
        }
        (None, None) => {}
        _ => assert!(false, "payload routing does not match the connection table"),
    }
    std::mem::forget(s);
}

// ---- C05 / C10: the response path --------------------------------------------------------------------------------
// A session for client id A (user data 0x44..) is pending at `addr`.  The datagram is a Response whose outer seal is
// authentic for that session and which echoes a challenge THIS server issued (ideal AEAD, DEC_MODE 3) - but the
// challenge may have been issued for ANY id B with ANY user data (the attacker legitimately owns another token).
macro_rules! srv_resp_guard {
    ($name:ident, $o0:expr, $o1:expr) => {
        #[kani::proof]
        #[kani::unwind(40)]
        fn $name() {
            let (mut s, facts) = any_server([$o0, $o1]);
            let addr = any_v4();
            if let Some((_, a)) = facts[0] {
                kani::assume(a != addr);
            }
            if let Some((_, a)) = facts[1] {
                kani::assume(a != addr);
            }
            let now = s.current_time;
            let mut pending = any_connection(addr, ConnectionState::PendingResponse, now);
            pending.user_data = [0x44; NETCODE_USER_DATA_BYTES];
            pending.sequence = 0;
            let id_a = pending.client_id;
            let rkey = pending.receive_key;
            s.pending_clients.slots[0] = Some((addr, pending));
            s.pending_clients.len = 1;
            // the echoed challenge: (B, user data 0x55..) sealed by this server under its challenge key
            let id_b: u64 = kani::any();
            let ud_b: u8 = kani::any();
            let ts: u64 = kani::any::<u32>() as u64;
            let mut token_data = [ud_b; NETCODE_CHALLENGE_TOKEN_BYTES];
            token_data[..8].copy_from_slice(&id_b.to_le_bytes());
            let pkt = Packet::Response { token_sequence: ts, token_data };
            let mut dgram = [0u8; 400];
            reset_ghost(1);
            let pid = s.protocol_id;
            let seq: u64 = kani::any::<u8>() as u64 + 1;
            let er = pkt.encode(&mut dgram, pid, Some((seq, &rkey)));
            let n = match &er {
                Ok(n) => *n,
                Err(_) => 0,
            };
            std::mem::forget(er);
            // ideal AEAD from here on: only the two tuples sealed above / by the server verify
            unsafe {
                aead::SEALED[0] = aead::CALLS[0];
                let mut ch = aead::NO_CALL;
                ch.key = s.challenge_key;
                ch.nonce[4..12].copy_from_slice(&ts.to_le_bytes());
                ch.len = NETCODE_CHALLENGE_TOKEN_BYTES - 16;
                ch.wbyte = token_data[0];
                aead::SEALED[1] = ch;
                aead::NSEALED = 2;
                aead::NCALLS = 0;
                aead::DEC_MODE = 3;
            }
            let connected_before = [facts[0].map(|f| f.0), facts[1].map(|f| f.0)];
            let gs0 = s.global_sequence;
            let r = s.process_packet_internal(addr, &mut dgram[..n]);
            if let Ok(ServerResult::ClientConnected { client_id, addr: a, user_data, .. }) = &r {
                assert!(*a == addr, "connected at another address than the pending session's");
                assert!(*client_id == id_a, "connected under an id other than the pending session's");
                assert!(id_b == id_a, "response echoing a challenge issued for ANOTHER client id produced a connection");
                assert!(user_data[0] == 0x44 || ud_b == 0x44, "reported user data is not the data sealed in this session's token");
                assert!(connected_before[0] != Some(*client_id) && connected_before[1] != Some(*client_id), "duplicate client id in the connection table");
                assert!(!($o0 && $o1), "connected although every slot was taken");
            }
            let mut replied = false;
            if let Ok(ServerResult::PacketToSend { addr: a, payload }) = &r {
                assert!(*a == addr && payload.len() < n, "reply to another address / amplification");
                replied = true;
            }
            kani::cover!(matches!(r, Ok(ServerResult::ClientConnected { .. })), "connects");
            std::mem::forget(r);
            if replied {
                // a handshake reply (denied) sealed under the session key consumes the server-wide nonce
                let ncalls = unsafe { aead::NCALLS };
                let c = unsafe { aead::CALLS[if ncalls >= 1 && ncalls <= aead::REC_CAP { ncalls - 1 } else { 0 }] };
                let mut nonce = [0u8; 24];
                nonce[4..12].copy_from_slice(&gs0.to_le_bytes());
                assert!(!c.decrypt && c.nonce == nonce, "handshake reply not sealed with the server-wide sequence");
                assert!(s.global_sequence == gs0 + 1, "server-wide sequence not advanced after sealing a handshake reply (nonce reuse under the session key)");
            }
            std::mem::forget(s);
        }
    };
}
srv_resp_guard!(srv_resp_guard_00, false, false);
srv_resp_guard!(srv_resp_guard_10, true, false);
srv_resp_guard!(srv_resp_guard_11, true, true);

// ---- C07 / C19: short or unauthentic datagrams from anyone get no answer and change nothing ---------------------
#[kani::proof]
#[kani::unwind(40)]
fn srv_frame_unknown() {
    reset_ghost(0);
    let (mut s, facts) = any_server([true, false]);
    let addr = any_v4();
    kani::assume(Some(addr) != facts[0].map(|f| f.1));
    let gs = s.global_sequence;
    let cs = s.challenge_sequence;
    let mut buf: [u8; 64] = kani::any();
    let n: usize = kani::any();
    kani::assume(n <= 64);
    let r = s.process_packet_internal(addr, &mut buf[..n]);
    // anything shorter than a full connection request from an unknown address: no answer
    match &r {
        Ok(x) => assert!(result_code(x) == 0, "answer to a datagram that carries no connect token"),
        Err(_) => {}
    }
    std::mem::forget(r);
    assert!(s.global_sequence == gs && s.challenge_sequence == cs && s.pending_clients.is_empty(), "state changed by junk from an unknown address");
    std::mem::forget(s);
}

/// from a connected address: a datagram the AEAD rejects changes nothing observable (no timeout refresh, no event)
#[kani::proof]
#[kani::unwind(40)]
fn srv_frame_connected() {
    reset_ghost(2);
    let (mut s, facts) = any_server([true, false]);
    let (_, addr) = facts[0].unwrap();
    let (lr, sq, conf) = {
        let c = s.clients[0].as_ref().unwrap();
        (c.last_packet_received_time, c.sequence, c.confirmed)
    };
    let mut buf: [u8; 64] = kani::any();
    let n: usize = kani::any();
    kani::assume(n <= 64);
    let r = s.process_packet_internal(addr, &mut buf[..n]);
    match &r {
        Ok(x) => assert!(result_code(x) == 0, "unauthentic datagram produced a payload / event / reply"),
        Err(_) => {}
    }
    std::mem::forget(r);
    let c = s.clients[0].as_ref().unwrap();
    assert!(c.last_packet_received_time == lr, "forged packet postponed the timeout");
    assert!(c.sequence == sq && c.confirmed == conf && c.state == ConnectionState::Connected);
    std::mem::forget(s);
}

/// from a connected address, authentic traffic: payload attributed to that slot's id; disconnect frees exactly it
macro_rules! srv_surface {
    ($name:ident, $o0:expr, $k:expr) => {
#[kani::proof]
#[kani::unwind(40)]
fn $name() {
    let (mut s, facts) = any_server([$o0, true]);
    let k: usize = $k;
    let (id, addr) = facts[k].unwrap();
    let rkey = s.clients[k].as_ref().unwrap().receive_key;
    let pid = s.protocol_id;
    reset_ghost(1);
    let body = [6u8; 8];
    let kind: bool = kani::any();
    let mut dgram = [0u8; 64];
    let seq: u64 = kani::any::<u8>() as u64 + 1;
    let er = if kind { Packet::Payload(&body).encode(&mut dgram, pid, Some((seq, &rkey))) } else { Packet::Disconnect.encode(&mut dgram, pid, Some((seq, &rkey))) };
    let n = match &er {
        Ok(n) => *n,
        Err(_) => 0,
    };
    std::mem::forget(er);
    unsafe {
        aead::SEALED[0] = aead::CALLS[0];
        aead::NSEALED = 1;
        aead::NCALLS = 0;
        aead::DEC_MODE = 3;
    }
    let now = s.current_time;
    let r = s.process_packet_internal(addr, &mut dgram[..n]);
    match &r {
        Ok(ServerResult::Payload { client_id, payload }) => {
            assert!(kind && *client_id == id && payload.len() == 8, "payload attributed to another client than the session it authenticated for");
        }
        Ok(ServerResult::ClientDisconnected { client_id, addr: a, .. }) => {
            assert!(!kind && *client_id == id && *a == addr);
        }
        _ => assert!(false, "genuine packet inside the window not surfaced on a connected session"),
    }
    let c = unsafe { aead::CALLS[0] };
    assert!(c.decrypt && c.key == rkey, "opened with another session's key");
    std::mem::forget(r);
    let _ = now;
    if !kind {
        // the disconnect freed exactly this client's slot
        assert!(s.clients[k].is_none(), "client reported disconnected but still in the table");
        if $o0 && k == 1 {
            assert!(s.clients[0].is_some(), "another client's slot was cleared");
        }
    } else {
        assert!(s.clients[k].is_some());
    }
    std::mem::forget(s);
}
    };
}
srv_surface!(srv_surface_11_k0, true, 0);
srv_surface!(srv_surface_11_k1, true, 1);
srv_surface!(srv_surface_01_k1, false, 1);


// ---- C05: a connect token is bound to the first address that used it ---------------------------------------------
macro_rules! tok_entry {
    ($name:ident, $n:expr) => {
        #[kani::proof]
        #[kani::unwind(40)]
        fn $name() {
            let (mut s, _) = any_server([false, false]);
            let mut macs = [[0u8; NETCODE_MAC_BYTES]; $n];
            let mut addrs = [any_v4(); $n];
            let mut i = 0;
            while i < $n {
                macs[i] = kani::any();
                addrs[i] = any_v4();
                s.connect_token_entries[i] = Some(ConnectTokenEntry { time: any_secs(), address: addrs[i], mac: macs[i] });
                i += 1;
            }
            // stored macs pairwise distinct (invariant of the table)
            if $n == 2 {
                kani::assume(macs[0] != macs[1]);
            }
            let new_mac: [u8; NETCODE_MAC_BYTES] = kani::any();
            let new_addr = any_v4();
            let ok = s.find_or_add_connect_token_entry(ConnectTokenEntry { time: s.current_time, address: new_addr, mac: new_mac });
            let mut known: Option<usize> = None;
            let mut i = 0;
            while i < $n {
                if macs[i] == new_mac {
                    known = Some(i);
                }
                i += 1;
            }
            match known {
                Some(i) => {
                    assert!(ok == (addrs[i] == new_addr), "a token already used from one address must be refused from any other, and accepted from its own");
                    // the binding is never rewritten
                    let mut j = 0;
                    while j < $n {
                        match &s.connect_token_entries[j] {
                            Some(e) => assert!(e.mac == macs[j] && e.address == addrs[j], "token entry rewritten by a repeated / foreign request"),
                            None => assert!(false, "token entry lost"),
                        }
                        j += 1;
                    }
                    // ... and no second binding for the same token appears anywhere in the table
                    let mut occupied = 0;
                    let mut j = 0;
                    while j < NETCODE_MAX_CLIENTS * 2 {
                        if s.connect_token_entries[j].is_some() {
                            occupied += 1;
                        }
                        j += 1;
                    }
                    assert!(occupied == $n, "a request with an already known token added a second binding (a later request from that address would then be accepted)");
                }
                None => {
                    assert!(ok, "fresh token refused");
                    let mut found = false;
                    let mut j = 0;
                    while j < NETCODE_MAX_CLIENTS * 2 {
                        if let Some(e) = &s.connect_token_entries[j] {
                            if e.mac == new_mac {
                                assert!(e.address == new_addr);
                                found = true;
                            }
                        }
                        j += 1;
                    }
                    assert!(found, "fresh token not recorded");
                }
            }
            kani::cover!(known.is_some() && !ok, "foreign address refused");
            std::mem::forget(s);
        }
    };
}
tok_entry!(tok_entry_n1, 1);
tok_entry!(tok_entry_n2, 2);

/// C05 / C07: a connection request whose private token does not authenticate changes NOTHING (no token entry,
/// no pending session, no counter) and gets no answer
#[kani::proof]
#[kani::unwind(40)]
fn srv_req_unauth() {
    reset_ghost(2);
    let (mut s, _) = any_server([true, false]);
    let gs = s.global_sequence;
    let cs = s.challenge_sequence;
    let data: [u8; NETCODE_CONNECT_TOKEN_PRIVATE_BYTES] = kani::any();
    let addr = any_v4();
    let r = s.handle_connection_request(addr, kani::any(), kani::any(), kani::any(), kani::any(), data);
    assert!(r.is_err(), "request with an unauthentic token accepted");
    std::mem::forget(r);
    assert!(s.global_sequence == gs && s.challenge_sequence == cs && s.pending_clients.is_empty(), "unauthentic request changed server state");
    let mut j = 0;
    while j < NETCODE_MAX_CLIENTS * 2 {
        assert!(s.connect_token_entries[j].is_none(), "unauthentic request registered a token entry (can lock the genuine owner out)");
        j += 1;
    }
    std::mem::forget(s);
}

/// C07 / C18: a connection-request datagram is never authenticated by decode (no key is used for it); coming
/// from an already connected address it must not count as a sign of life of that client
#[kani::proof]
#[kani::unwind(40)]
fn srv_frame_connected_req() {
    reset_ghost(2);
    let (mut s, facts) = any_server([true, false]);
    let (_, addr) = facts[0].unwrap();
    let lr = s.clients[0].as_ref().unwrap().last_packet_received_time;
    let mut buf: [u8; 1100] = kani::any();
    buf[0] = 0; // packet type 0 = connection request, sent in the clear
    let n: usize = kani::any();
    kani::assume(n >= 1078 && n <= 1100);
    let r = s.process_packet_internal(addr, &mut buf[..n]);
    match &r {
        Ok(x) => assert!(result_code(x) == 0, "unauthenticated datagram from a connected address produced a payload / event / reply"),
        Err(_) => {}
    }
    std::mem::forget(r);
    assert!(unsafe { aead::NCALLS } == 0);
    let c = s.clients[0].as_ref().unwrap();
    assert!(c.last_packet_received_time == lr, "an unauthenticated connection-request datagram postponed the client's timeout");
    std::mem::forget(s);
}

/// vacuity witness (must FAIL)
#[kani::proof]
#[kani::unwind(40)]
fn srv_witness() {
    reset_ghost(1);
    let (mut s, facts) = any_server([true, false]);
    let r = s.disconnect(facts[0].unwrap().0);
    if matches!(r, ServerResult::ClientDisconnected { .. }) {
        assert!(false, "witness");
    }
    std::mem::forget(r);
    std::mem::forget(s);
}
