// Harnesses for renetcode/src/token.rs  (C05, C07, C16, C17)
use super::*;
use crate::verif_models::chacha as aead;

fn reset_ghost(mode: u8, widx: usize) {
    unsafe {
        aead::NCALLS = 0;
        aead::DEC_MODE = mode;
        aead::WIDX = widx;
        aead::NSEALED = 0;
    }
}

fn any_v4() -> SocketAddr {
    let ip: [u8; 4] = kani::any();
    SocketAddr::new(IpAddr::V4(Ipv4Addr::from(ip)), kani::any())
}
fn any_v6() -> SocketAddr {
    let ip: [u8; 16] = kani::any();
    SocketAddr::new(IpAddr::V6(Ipv6Addr::from(ip)), kani::any())
}

/// address list with K entries; family pattern fixed per instance (bit i of FAM = 1 => IPv6)
fn addrs<const K: usize>(fam: u32) -> [Option<SocketAddr>; 32] {
    let mut a: [Option<SocketAddr>; 32] = [None; 32];
    let mut i = 0;
    while i < K {
        a[i] = Some(if (fam >> i) & 1 == 1 { any_v6() } else { any_v4() });
        i += 1;
    }
    a
}

// ---- C16: private token write/read and seal/open round trip; C05/C17: what is bound into the AEAD -----
macro_rules! rt_token_priv {
    ($name:ident, $k:expr, $fam:expr) => {
        #[kani::proof]
        #[kani::unwind(34)]
        fn $name() {
            let w: usize = kani::any();
            kani::assume(w < NETCODE_USER_DATA_BYTES);
            reset_ghost(1, 0);
            let t = PrivateConnectToken {
                client_id: kani::any(),
                timeout_seconds: kani::any(),
                server_addresses: addrs::<$k>($fam),
                client_to_server_key: kani::any(),
                server_to_client_key: kani::any(),
                user_data: kani::any(),
            };
            let protocol_id: u64 = kani::any();
            let expire: u64 = kani::any();
            let xnonce: [u8; 24] = kani::any();
            let key: [u8; 32] = kani::any();
            let mut buf = [0u8; NETCODE_CONNECT_TOKEN_PRIVATE_BYTES];
            let r = t.encode(&mut buf, protocol_id, expire, &xnonce, &key);
            assert!(r.is_ok(), "sealing a buildable private token failed");
            std::mem::forget(r);
            // what the seal is bound to (C05 / C17): xchacha, server key, token nonce, aad = VERSION | protocol id | expiry
            let c = unsafe { aead::CALLS[0] };
            assert!(unsafe { aead::NCALLS } == 1 && !c.decrypt && c.xchacha && c.key == key && c.nonce == xnonce);
            assert!(c.aad_len == 29 && c.aad[..13] == *NETCODE_VERSION_INFO && c.aad[13..21] == protocol_id.to_le_bytes() && c.aad[21..29] == expire.to_le_bytes(),
                    "the public expiry / protocol id are not bound into the sealed token");
            assert!(c.len == NETCODE_CONNECT_TOKEN_PRIVATE_BYTES - 16);
            let d = PrivateConnectToken::decode(&buf, protocol_id, expire, &xnonce, &key);
            let c2 = unsafe { aead::CALLS[1] };
            assert!(c2.decrypt && c2.xchacha && c2.key == key && c2.nonce == xnonce && c2.aad_len == 29 && c2.aad == c.aad, "open is not bound to the same tuple as seal");
            match &d {
                Ok(u) => {
                    assert!(u.client_id == t.client_id && u.timeout_seconds == t.timeout_seconds);
                    assert!(u.client_to_server_key == t.client_to_server_key && u.server_to_client_key == t.server_to_client_key);
                    assert!(u.user_data[w] == t.user_data[w]);
                    let mut i = 0;
                    while i < $k + 1 {
                        assert!(u.server_addresses[i] == t.server_addresses[i], "server address list does not round-trip");
                        i += 1;
                    }
                }
                Err(_) => assert!(false, "opening a sealed private token failed"),
            }
            std::mem::forget(d);
        }
    };
}
rt_token_priv!(rt_token_priv_k1_v4, 1, 0);
rt_token_priv!(rt_token_priv_k1_v6, 1, 1);
rt_token_priv!(rt_token_priv_k2_mix, 2, 0b10);
rt_token_priv!(rt_token_priv_k3_mix, 3, 0b010);

// ---- C16: public token write/read ----------------------------------------------------------------------
macro_rules! rt_token_pub {
    ($name:ident, $k:expr, $fam:expr) => {
        #[kani::proof]
        #[kani::unwind(34)]
        fn $name() {
            let w: usize = kani::any();
            kani::assume(w < NETCODE_CONNECT_TOKEN_PRIVATE_BYTES);
            let t = ConnectToken {
                client_id: kani::any(),
                version_info: *NETCODE_VERSION_INFO,
                protocol_id: kani::any(),
                create_timestamp: kani::any(),
                expire_timestamp: kani::any(),
                xnonce: kani::any(),
                server_addresses: addrs::<$k>($fam),
                client_to_server_key: kani::any(),
                server_to_client_key: kani::any(),
                private_data: kani::any(),
                timeout_seconds: kani::any(),
            };
            let mut buf = [0u8; 1400];
            let n = {
                let mut cur = Cursor::new(&mut buf[..]);
                let r = t.write(&mut cur);
                assert!(r.is_ok());
                std::mem::forget(r);
                cur.position() as usize
            };
            let mut src = Cursor::new(&buf[..n]);
            let d = ConnectToken::read(&mut src);
            match &d {
                Ok(u) => {
                    assert!(u.client_id == t.client_id && u.protocol_id == t.protocol_id && u.create_timestamp == t.create_timestamp);
                    assert!(u.expire_timestamp == t.expire_timestamp && u.xnonce == t.xnonce && u.timeout_seconds == t.timeout_seconds);
                    assert!(u.client_to_server_key == t.client_to_server_key && u.server_to_client_key == t.server_to_client_key);
                    assert!(u.private_data[w] == t.private_data[w]);
                    let mut i = 0;
                    while i < $k + 1 {
                        assert!(u.server_addresses[i] == t.server_addresses[i], "server address list does not round-trip");
                        i += 1;
                    }
                }
                Err(_) => assert!(false, "reading a written token failed"),
            }
            std::mem::forget(d);
        }
    };
}
rt_token_pub!(rt_token_pub_k1_v4, 1, 0);
rt_token_pub!(rt_token_pub_k2_mix, 2, 0b01);

// ---- C07: ConnectToken::read is total ---------------------------------------------------------------------
// instance: announced address count K and the host-type bytes (so read offsets are concrete); everything else
// in the byte source is symbolic; the source may be truncated anywhere (length symbolic)
/// public token source buffer: fixed part + address list (up to 33 one-byte NONE entries or 2 full ones) + keys + slack
const TOKBUF: usize = 8 + 13 + 8 + 8 + 8 + 24 + NETCODE_CONNECT_TOKEN_PRIVATE_BYTES + 4 + 4 + 64 + 64 + 144;

macro_rules! tok_read_total {
    ($name:ident, $count:expr, $types:expr) => {
        #[kani::proof]
        #[kani::unwind(36)]
        fn $name() {
            let mut buf: [u8; TOKBUF] = kani::any();
            let n: usize = kani::any();
            kani::assume(n <= TOKBUF);
            // fixed header layout: id 8, version 13, protocol 8, create 8, expire 8, xnonce 24, private 1024, timeout 4
            buf[8..21].copy_from_slice(NETCODE_VERSION_INFO);
            let base = 8 + 13 + 8 + 8 + 8 + 24 + NETCODE_CONNECT_TOKEN_PRIVATE_BYTES + 4;
            let count: u32 = $count;
            buf[base..base + 4].copy_from_slice(&count.to_le_bytes());
            // host type bytes at their (concrete) offsets
            let types: &[u8] = &$types;
            let mut off = base + 4;
            let mut i = 0;
            while i < types.len() {
                buf[off] = types[i];
                off += match types[i] {
                    1 => 1 + 4 + 2,
                    2 => 1 + 16 + 2,
                    _ => 1,
                };
                i += 1;
            }
            let mut src = Cursor::new(&buf[..n]);
            let r = ConnectToken::read(&mut src);
            if let Ok(t) = &r {
                // whatever parses can be handed to the client constructor without a panic
                kani::cover!(t.server_addresses[0].is_none(), "token without a first address parses");
            }
            kani::cover!(r.is_ok(), "parses");
            kani::cover!(r.is_err(), "rejected");
            std::mem::forget(r);
        }
    };
}
tok_read_total!(tok_read_total_k0, 0, []);
tok_read_total!(tok_read_total_k1_v4, 1, [1]);
tok_read_total!(tok_read_total_k1_v6, 1, [2]);
tok_read_total!(tok_read_total_k1_none, 1, [0]);
tok_read_total!(tok_read_total_k1_bad, 1, [3]);
tok_read_total!(tok_read_total_k2, 2, [2, 1]);
tok_read_total!(tok_read_total_k33, 33, [0, 0, 0, 0, 0, 0, 0, 0, 0, 0, 0, 0, 0, 0, 0, 0, 0, 0, 0, 0, 0, 0, 0, 0, 0, 0, 0, 0, 0, 0, 0, 0, 0]);
tok_read_total!(tok_read_total_kmax, u32::MAX, [1, 0, 0, 0, 0, 0, 0, 0, 0, 0, 0, 0, 0, 0, 0, 0, 0, 0, 0, 0, 0, 0, 0, 0, 0, 0, 0, 0, 0, 0, 0, 0, 0]);

/// a token whose sealed part was opened by the (nondeterministic) AEAD: PrivateConnectToken::decode is total
#[kani::proof]
#[kani::unwind(36)]
fn tok_priv_decode_total() {
    reset_ghost(0, 0);
    let mut data: [u8; NETCODE_CONNECT_TOKEN_PRIVATE_BYTES] = kani::any();
    // one IPv4 address announced (offsets concrete); everything else arbitrary
    data[12..16].copy_from_slice(&1u32.to_le_bytes());
    data[16] = 1;
    let r = PrivateConnectToken::decode(&data, kani::any(), kani::any(), &kani::any(), &kani::any());
    kani::cover!(r.is_ok(), "opens");
    kani::cover!(r.is_err(), "rejected");
    std::mem::forget(r);
}

/// vacuity witness (must FAIL)
#[kani::proof]
#[kani::unwind(36)]
fn tok_witness() {
    let mut buf: [u8; TOKBUF] = kani::any();
    buf[8..21].copy_from_slice(NETCODE_VERSION_INFO);
    let base = 8 + 13 + 8 + 8 + 8 + 24 + NETCODE_CONNECT_TOKEN_PRIVATE_BYTES + 4;
    buf[base..base + 4].copy_from_slice(&0u32.to_le_bytes());
    let mut src = Cursor::new(&buf[..]);
    let r = ConnectToken::read(&mut src);
    if r.is_ok() {
        assert!(false, "witness");
    }
    std::mem::forget(r);
}

/// vacuity witness for the private-token lemmas (must FAIL)
#[kani::proof]
#[kani::unwind(36)]
fn tokp_witness() {
    reset_ghost(1, 0);
    let mut data: [u8; NETCODE_CONNECT_TOKEN_PRIVATE_BYTES] = kani::any();
    data[12..16].copy_from_slice(&1u32.to_le_bytes());
    data[16] = 1;
    let r = PrivateConnectToken::decode(&data, kani::any(), kani::any(), &kani::any(), &kani::any());
    if r.is_ok() {
        assert!(false, "witness");
    }
    std::mem::forget(r);
}

// =====================================================================================================================
// CONTRACT function for the netcode-server step lemmas (variant "contracts"; see models/netcode_contracts.rs): the
// private connect token opens iff it is THE token sealed by the holder of the presented key for exactly this protocol
// id / expiry / xnonce / ciphertext (ideal AEAD; the binding of those fields into the AEAD tuple is what
// PrivateConnectToken::{encode, decode} + get_additional_data do - covered by the native token tests of the repo).
use crate::verif_models::contracts as tct;

impl PrivateConnectToken {
    pub(crate) fn verif_decode(
        buffer: &[u8; NETCODE_CONNECT_TOKEN_PRIVATE_BYTES],
        protocol_id: u64,
        expire_timestamp: u64,
        xnonce: &[u8; NETCODE_CONNECT_TOKEN_XNONCE_BYTES],
        private_key: &[u8; NETCODE_KEY_BYTES],
    ) -> Result<Self, TokenGenerationError> {
        unsafe {
            tct::NTOK_DEC += 1;
            if tct::TOK && *private_key == tct::TOK_KEY && protocol_id == tct::TOK_PID && expire_timestamp == tct::TOK_EXPIRE && *xnonce == tct::TOK_XNONCE && *buffer == tct::TOK_DATA {
                tct::TOK_OPENED = true;
                let mut server_addresses = [None; 32];
                server_addresses[0] = tct::TOK_ADDR0;
                server_addresses[1] = tct::TOK_ADDR1;
                return Ok(PrivateConnectToken {
                    client_id: tct::TOK_ID,
                    timeout_seconds: tct::TOK_TIMEOUT,
                    server_addresses,
                    client_to_server_key: tct::TOK_C2S,
                    server_to_client_key: tct::TOK_S2C,
                    user_data: tct::TOK_UD,
                });
            }
        }
        Err(TokenGenerationError::CryptoError)
    }
}
