// Harnesses for renet/src/remote_connection.rs  (C06, C08, C12, C13, C14, C15, C16)
use super::*;
use crate::channel::reliable::verif_kani as rel;
use crate::error::ChannelError;
use crate::packet::{SerializationError, Slice};
use crate::verif_models::{is_window, vbytes};

const IDMAX: u64 = 1 << 62;

fn any_id() -> u64 {
    let x: u64 = kani::any();
    kani::assume(x < IDMAX);
    x
}
fn any_secs() -> Duration {
    let s: u64 = kani::any();
    kani::assume(s < (1 << 40));
    Duration::from_secs(s)
}

/// a client without channels, built by struct literal (from_channels costs minutes under CBMC)
pub(crate) fn bare_client() -> RenetClient {
    RenetClient {
        packet_sequence: 0,
        current_time: Duration::ZERO,
        sent_packets: BTreeMap::new(),
        pending_acks: Vec::new(),
        channel_send_order: Vec::new(),
        send_unreliable_channels: HashMap::new(),
        receive_unreliable_channels: HashMap::new(),
        send_reliable_channels: HashMap::new(),
        receive_reliable_channels: HashMap::new(),
        stats: ConnectionStats::new(),
        available_bytes_per_tick: 60_000,
        connection_status: RenetConnectionStatus::Connected,
        rtt: 0.0,
    }
}

fn contains(acks: &[Range<u64>], n: usize, w: u64) -> bool {
    let mut r = false;
    let mut i = 0;
    while i < n {
        if acks[i].start <= w && w < acks[i].end {
            r = true;
        }
        i += 1;
    }
    r
}

/// well-formed: non-empty ranges, ascending, separated by at least one missing sequence
fn well_formed(acks: &[Range<u64>], n: usize) -> bool {
    let mut ok = true;
    let mut i = 0;
    while i < n {
        if acks[i].start >= acks[i].end {
            ok = false;
        }
        if i + 1 < n && acks[i].end >= acks[i + 1].start {
            ok = false;
        }
        i += 1;
    }
    ok
}

// ---- add_pending_ack: the pending list denotes exactly the set of received sequences (C08, C16) ----
macro_rules! ack_add {
    ($name:ident, $n:expr) => {
        #[kani::proof]
        #[kani::unwind(8)]
        fn $name() {
            let mut c = bare_client();
            let mut pre: [Range<u64>; $n + 1] = std::array::from_fn(|_| 0..0);
            let mut i = 0;
            while i < $n {
                let s = any_id();
                let e = any_id();
                pre[i] = s..e;
                c.pending_acks.push(s..e);
                i += 1;
            }
            kani::assume(well_formed(&pre, $n));
            let seq = any_id();
            kani::assume(seq + 1 < IDMAX);
            let w = any_id();
            let before = contains(&pre, $n, w);
            c.add_pending_ack(seq);
            let n2 = c.pending_acks.len();
            assert!(n2 <= $n + 1 && n2 >= 1);
            assert!(n2 + 1 >= $n, "more than one range disappeared");
            let mut post: [Range<u64>; $n + 1] = std::array::from_fn(|_| 0..0);
            let mut i = 0;
            while i < $n + 1 {
                if i < n2 {
                    post[i] = c.pending_acks[i].clone();
                }
                i += 1;
            }
            assert!(well_formed(&post, n2), "pending acks no longer sorted / disjoint / non-adjacent");
            assert!(contains(&post, n2, w) == (before || w == seq), "set of recorded sequences is not old set plus the new sequence");
            kani::cover!(n2 == $n + 1, "new range");
            kani::cover!($n < 2 || n2 + 1 == $n, "two ranges merged (lists of >= 2 ranges)");
            std::mem::forget(c);
        }
    };
}
ack_add!(ack_add_n0, 0);
ack_add!(ack_add_n1, 1);
ack_add!(ack_add_n2, 2);
ack_add!(ack_add_n3, 3);

/// the 64-range cap (C13: an ack packet must fit; C16: "the newest 64 ranges"): from a full list of 64
/// single-element ranges, recording a further sequence below the list / between its first two ranges keeps
/// the list at <= 64 ranges and never forgets the newest range.  (All values concrete: inserting into a
/// 64-element Vec at a symbolic position exceeds 16 GB; the symbolic-position semantics is ack_add_n*.)
#[kani::proof]
#[kani::unwind(70)]
fn ack_cap_64() {
    let seqs: [u64; 2] = [990, 1005];
    let mut k = 0;
    while k < 2 {
        let mut c = bare_client();
        c.pending_acks = Vec::with_capacity(66);
        let mut i = 0u64;
        while i < 64 {
            c.pending_acks.push((1000 + 10 * i)..(1000 + 10 * i + 1));
            i += 1;
        }
        c.add_pending_ack(seqs[k]);
        let n2 = c.pending_acks.len();
        assert!(n2 <= 64, "more than 64 pending ack ranges: the ack packet can exceed its buffer");
        assert!(c.pending_acks[n2 - 1].end >= 1631, "newest range forgotten");
        std::mem::forget(c);
        k += 1;
    }
}

// ---- acked_largest: trimming by an acknowledged ack packet (C08) -----------------------------------
macro_rules! ack_largest {
    ($name:ident, $n:expr) => {
        #[kani::proof]
        #[kani::unwind(8)]
        fn $name() {
            let mut c = bare_client();
            let mut pre: [Range<u64>; $n] = std::array::from_fn(|_| 0..0);
            let mut i = 0;
            while i < $n {
                let s = any_id();
                let e = any_id();
                pre[i] = s..e;
                c.pending_acks.push(s..e);
                i += 1;
            }
            kani::assume(well_formed(&pre, $n));
            let a = any_id();
            let w = any_id();
            let before = contains(&pre, $n, w);
            c.acked_largest(a);
            let n2 = c.pending_acks.len();
            assert!(n2 <= $n);
            let mut post: [Range<u64>; $n] = std::array::from_fn(|_| 0..0);
            let mut i = 0;
            while i < $n {
                if i < n2 {
                    post[i] = c.pending_acks[i].clone();
                }
                i += 1;
            }
            assert!(well_formed(&post, n2));
            assert!(contains(&post, n2, w) == (before && w > a), "trimming must forget exactly the sequences <= largest acked");
            kani::cover!(n2 == 0 && $n > 0, "everything trimmed");
            kani::cover!(n2 == $n, "nothing trimmed");
            std::mem::forget(c);
        }
    };
}
ack_largest!(ack_largest_n1, 1);
ack_largest!(ack_largest_n2, 2);
ack_largest!(ack_largest_n3, 3);

// ---- status machine (C12): Disconnected is absorbing and keeps the first reason ---------------------
fn any_reason() -> DisconnectReason {
    let k: u8 = kani::any();
    let se = match kani::any::<u8>() % 6 {
        0 => SerializationError::BufferTooShort,
        1 => SerializationError::InvalidNumSlices,
        2 => SerializationError::SliceSizeAboveLimit,
        3 => SerializationError::EmptySlice,
        4 => SerializationError::InvalidAckRange,
        _ => SerializationError::InvalidPacketType,
    };
    let ce = if kani::any() { ChannelError::ReliableChannelMaxMemoryReached } else { ChannelError::InvalidSliceMessage };
    match k % 8 {
        0 => DisconnectReason::Transport,
        1 => DisconnectReason::DisconnectedByClient,
        2 => DisconnectReason::DisconnectedByServer,
        3 => DisconnectReason::PacketSerialization(se),
        4 => DisconnectReason::PacketDeserialization(se),
        5 => DisconnectReason::ReceivedInvalidChannelId(kani::any()),
        6 => DisconnectReason::SendChannelError { channel_id: kani::any(), error: ce },
        _ => DisconnectReason::ReceiveChannelError { channel_id: kani::any(), error: ce },
    }
}

/// a client with one reliable and one unreliable channel in each direction (ids 0 = reliable, 1 = unreliable)
pub(crate) fn two_channel_client(ordered: bool) -> RenetClient {
    let mut c = bare_client();
    c.send_reliable_channels.slots[0] = Some((0, SendChannelReliable::new(0, Duration::from_millis(300), 100_000)));
    c.send_reliable_channels.len = 1;
    c.send_unreliable_channels.slots[0] = Some((1, SendChannelUnreliable::new(1, 100_000)));
    c.send_unreliable_channels.len = 1;
    c.receive_reliable_channels.slots[0] = Some((0, ReceiveChannelReliable::new(100_000, ordered)));
    c.receive_reliable_channels.len = 1;
    c.receive_unreliable_channels.slots[0] = Some((1, ReceiveChannelUnreliable::new(1, 100_000)));
    c.receive_unreliable_channels.len = 1;
    c.channel_send_order.push(ChannelOrder::Reliable(0));
    c.channel_send_order.push(ChannelOrder::Unreliable(1));
    c
}

/// observable summary of a client's channels (memory accounted per channel, pending acks, status)
pub(crate) fn client_obs(c: &RenetClient) -> (usize, usize, usize, usize, u8) {
    (
        c.send_reliable_channels.get(&0).map(|ch| ch.available_memory()).unwrap_or(0),
        c.send_unreliable_channels.get(&1).map(|ch| ch.available_memory()).unwrap_or(0),
        c.receive_reliable_channels.get(&0).map(|ch| rel::recv_mem(ch)).unwrap_or(0),
        c.pending_acks.len(),
        match c.connection_status {
            RenetConnectionStatus::Connected => 0,
            RenetConnectionStatus::Connecting => 1,
            RenetConnectionStatus::Disconnected { .. } => 2,
        },
    )
}
fn obs(c: &RenetClient) -> (usize, usize, usize, usize, u8) {
    client_obs(c)
}
pub(crate) fn set_status(c: &mut RenetClient, reason: Option<DisconnectReason>) {
    c.connection_status = match reason {
        Some(reason) => RenetConnectionStatus::Disconnected { reason },
        None => RenetConnectionStatus::Connected,
    };
}

fn stub_stats_update(_s: &mut ConnectionStats, _t: Duration) {}
fn stub_stats_acked(_s: &mut ConnectionStats, _a: Duration, _b: Duration) {}

macro_rules! dc_absorb {
    ($name:ident, $op:expr) => {
        /// from Disconnected{r} no public call changes the status or the reason; nothing is emitted,
        /// nothing accepted, nothing handed out
        #[kani::proof]
        #[kani::unwind(8)]
        #[kani::stub(crate::connection_stats::ConnectionStats::update, stub_stats_update)]
        fn $name() {
            let mut c = two_channel_client(kani::any());
            let r = any_reason();
            c.connection_status = RenetConnectionStatus::Disconnected { reason: r };
            let before = obs(&c);
            let op: u8 = $op;
            match op {
                0 => c.set_connected(),
                1 => c.set_connecting(),
                2 => c.disconnect(),
                3 => c.disconnect_due_to_transport(),
                4 => c.send_message(0u8, vbytes(5, 1)),
                5 => c.send_message(1u8, vbytes(5, 1)),
                6 => {
                    let m = c.receive_message(0u8);
                    assert!(m.is_none(), "message handed out after disconnection");
                }
                7 => {
                    let m = c.receive_message(1u8);
                    assert!(m.is_none(), "message handed out after disconnection");
                }
                8 => {
                    let buf: [u8; 8] = kani::any();
                    let n: usize = kani::any();
                    kani::assume(n <= 8);
                    c.process_packet(&buf[..n]);
                }
                9 => {
                    let p = c.get_packets_to_send();
                    assert!(p.is_empty(), "packet emitted after disconnection");
                    std::mem::forget(p);
                }
                10 => c.disconnect_with_reason(any_reason()),
                _ => c.update(any_secs()),
            }
            assert!(c.is_disconnected() && !c.is_connected() && !c.is_connecting(), "a disconnected connection was revived");
            assert!(c.disconnect_reason() == Some(r), "first disconnect reason replaced");
            assert!(obs(&c) == before, "a disconnected connection still accepts / queues data");
            std::mem::forget(c);
        }
    };
}
// one public call per instance (a symbolic choice between calls multiplies the state by the number of calls)
dc_absorb!(dc_absorb_set_connected, 0);
dc_absorb!(dc_absorb_set_connecting, 1);
dc_absorb!(dc_absorb_disconnect, 2);
dc_absorb!(dc_absorb_transport, 3);
dc_absorb!(dc_absorb_send_rel, 4);
dc_absorb!(dc_absorb_send_unrel, 5);
dc_absorb!(dc_absorb_recv_rel, 6);
dc_absorb!(dc_absorb_recv_unrel, 7);
dc_absorb!(dc_absorb_packet, 8);
dc_absorb!(dc_absorb_gps, 9);
dc_absorb!(dc_absorb_reason, 10);
dc_absorb!(dc_absorb_update, 11);

/// from Connected / Connecting: every disconnect cause sets exactly its reason; status setters move only
/// between Connected and Connecting
#[kani::proof]
#[kani::unwind(8)]
fn dc_first_reason() {
    let mut c = bare_client();
    c.connection_status = if kani::any() { RenetConnectionStatus::Connected } else { RenetConnectionStatus::Connecting };
    let r1 = any_reason();
    let r2 = any_reason();
    match kani::any::<u8>() % 3 {
        0 => {
            c.disconnect();
            assert!(c.disconnect_reason() == Some(DisconnectReason::DisconnectedByClient));
        }
        1 => {
            c.disconnect_due_to_transport();
            assert!(c.disconnect_reason() == Some(DisconnectReason::Transport));
        }
        _ => {
            c.disconnect_with_reason(r1);
            assert!(c.disconnect_reason() == Some(r1));
        }
    }
    let first = c.disconnect_reason();
    c.disconnect_with_reason(r2);
    c.disconnect();
    c.disconnect_due_to_transport();
    c.set_connected();
    c.set_connecting();
    assert!(c.disconnect_reason() == first && c.is_disconnected(), "first reason lost");
    std::mem::forget(c);
}

/// vacuity witness (must FAIL)
#[kani::proof]
#[kani::unwind(8)]
fn rc_witness() {
    let mut c = bare_client();
    c.add_pending_ack(any_id() % 1000);
    if c.pending_acks.len() == 1 {
        assert!(false, "witness");
    }
    std::mem::forget(c);
}

// =====================================================================================================================
// CONTRACT variant (process_packet with the parser replaced by its contract: any V-valid packet).  C08: a reliable
// message is released only by an acknowledgement of a packet that carried it; C03 / C06 / C11: dispatch by channel id.
use crate::packet::verif_kani::NEXT_PACKET;

fn stage_packet(p: Packet) {
    #[allow(static_mut_refs)]
    unsafe {
        NEXT_PACKET = Some(Ok(p));
    }
}

/// two reliable small messages in flight, each carried by its own sent packet; one incoming Ack packet with one range
#[kani::proof]
#[kani::unwind(8)]
#[kani::stub(crate::connection_stats::ConnectionStats::acked_packet, stub_stats_acked)]
fn rc_ack_release_small() {
    let mut c = two_channel_client(true);
    let now = any_secs();
    c.current_time = now;
    let (m0, m1) = (any_id(), any_id());
    kani::assume(m0 < m1);
    let (l0, l1): (usize, usize) = (kani::any(), kani::any());
    kani::assume(l0 <= 1200 && l1 <= 1200);
    {
        let ch = c.send_reliable_channels.get_mut(&0).unwrap();
        rel::put_small(ch, 0, m0, l0, 100, Some(now));
        rel::put_small(ch, 1, m1, l1, 101, Some(now));
        rel::set_send_mem(ch, l0 + l1, m1 + 1);
    }
    // the two packets that carried them (sequence numbers symbolic, sent in this order)
    let (s0, s1) = (any_id(), any_id());
    kani::assume(s0 < s1);
    c.packet_sequence = s1 + 1;
    c.sent_packets.slots[0] = Some((s0, PacketSent { sent_at: now, info: PacketSentInfo::ReliableMessages { channel_id: 0, message_ids: vec![m0] } }));
    c.sent_packets.slots[1] = Some((s1, PacketSent { sent_at: now, info: PacketSentInfo::ReliableMessages { channel_id: 0, message_ids: vec![m1] } }));
    c.sent_packets.len = 2;
    // incoming: an Ack packet with one arbitrary V-valid range
    let (a, b) = (any_id(), any_id());
    kani::assume(a < b);
    let q = any_id();
    kani::assume(q + 1 < IDMAX);
    stage_packet(Packet::Ack { sequence: q, ack_ranges: vec![a..b] });
    let buf = [4u8; 4];
    c.process_packet(&buf);
    let acked0 = a <= s0 && s0 < b;
    let acked1 = a <= s1 && s1 < b;
    let ch = c.send_reliable_channels.get(&0).unwrap();
    assert!(rel::has_msg(ch, m0) == !acked0, "message released without (or kept despite) an acknowledgement of the packet that carried it");
    assert!(rel::has_msg(ch, m1) == !acked1, "message released without (or kept despite) an acknowledgement of the packet that carried it");
    assert!(rel::send_mem(ch) == (if acked0 { 0 } else { l0 }) + (if acked1 { 0 } else { l1 }), "bytes of a released message not returned exactly once");
    assert!(c.sent_packets.contains_key(&s0) == !acked0 && c.sent_packets.contains_key(&s1) == !acked1, "sent-packet record not consumed exactly by its acknowledgement");
    assert!(c.pending_acks.len() == 1 && c.pending_acks[0] == (q..q + 1), "the received packet itself is not recorded for acknowledgement");
    assert!(!c.is_disconnected());
    kani::cover!(acked0 && !acked1, "only the first");
    kani::cover!(acked0 && acked1, "both");
    std::mem::forget(c);
}

/// a sliced message (2 slices), each slice carried by its own packet: released only when both packets are acknowledged
#[kani::proof]
#[kani::unwind(8)]
#[kani::stub(crate::connection_stats::ConnectionStats::acked_packet, stub_stats_acked)]
fn rc_ack_release_sliced() {
    let mut c = two_channel_client(true);
    let now = any_secs();
    c.current_time = now;
    let m = any_id();
    let len: usize = kani::any();
    kani::assume(len > 1200 && len <= 2400);
    let pre_acked: bool = kani::any(); // slice 0 already acknowledged earlier?
    {
        let ch = c.send_reliable_channels.get_mut(&0).unwrap();
        rel::put_sliced2(ch, m, len, pre_acked, now);
        rel::set_send_mem(ch, len, m + 1);
    }
    // slice 0 was transmitted twice (original + retransmission), slice 1 once; the harness acks a symbolic range
    let (s0, s1) = (any_id(), any_id());
    kani::assume(s0 < s1);
    let i0: usize = 0;
    let i1: usize = if kani::any() { 0 } else { 1 };
    c.packet_sequence = s1 + 1;
    c.sent_packets.slots[0] = Some((s0, PacketSent { sent_at: now, info: PacketSentInfo::ReliableSliceMessage { channel_id: 0, message_id: m, slice_index: i0 } }));
    c.sent_packets.slots[1] = Some((s1, PacketSent { sent_at: now, info: PacketSentInfo::ReliableSliceMessage { channel_id: 0, message_id: m, slice_index: i1 } }));
    c.sent_packets.len = 2;
    let (a, b) = (any_id(), any_id());
    kani::assume(a < b);
    let q = any_id();
    kani::assume(q + 1 < IDMAX);
    stage_packet(Packet::Ack { sequence: q, ack_ranges: vec![a..b] });
    let buf = [4u8; 4];
    c.process_packet(&buf);
    let acked0 = a <= s0 && s0 < b;
    let acked1 = a <= s1 && s1 < b;
    // which slice indexes are acknowledged now (by this ack or earlier)
    let have0 = pre_acked || acked0 || (acked1 && i1 == 0);
    let have1 = acked1 && i1 == 1;
    let ch = c.send_reliable_channels.get(&0).unwrap();
    assert!(rel::has_msg(ch, m) == !(have0 && have1), "sliced message released before every slice was acknowledged (or kept although all were)");
    assert!(rel::send_mem(ch) == if have0 && have1 { 0 } else { len });
    kani::cover!(have0 && have1, "released");
    kani::cover!(acked0 && acked1 && i1 == 0 && !have1, "same slice acknowledged twice: not released");
    std::mem::forget(c);
}

/// dispatch by channel id (C03 / C06 / C11): a small reliable packet reaches exactly the receive channel it names;
/// a channel id that is not a reliable receive channel disconnects and changes no channel
#[kani::proof]
#[kani::unwind(8)]
fn rc_dispatch_small_reliable() {
    let mut c = two_channel_client(kani::any());
    let before = obs(&c);
    let ch_id: u8 = kani::any();
    let mid = any_id();
    let len: usize = kani::any();
    kani::assume(len <= 1200);
    let q = any_id();
    kani::assume(q + 1 < IDMAX);
    stage_packet(Packet::SmallReliable { sequence: q, channel_id: ch_id, messages: vec![(mid, vbytes(len, 7))] });
    let buf = [0u8; 4];
    c.process_packet(&buf);
    let after = obs(&c);
    assert!(after.0 == before.0 && after.1 == before.1, "a received packet changed a send channel");
    if ch_id == 0 {
        assert!(!c.is_disconnected());
        assert!(after.2 == before.2 + len, "message not buffered (once) on the reliable receive channel it was addressed to");
    } else {
        assert!(c.disconnect_reason() == Some(DisconnectReason::ReceivedInvalidChannelId(ch_id)), "packet for a channel that does not exist (or is not reliable) must disconnect with that channel id");
        assert!(after.2 == before.2, "message for another channel delivered to the reliable channel");
    }
    assert!(c.receive_unreliable_channels.get(&1).map(|u| crate::channel::unreliable::verif_kani::recv_mem(u)) == Some(0), "unreliable channel received a reliable message");
    std::mem::forget(c);
}

#[kani::proof]
#[kani::unwind(8)]
fn rc_dispatch_small_unreliable() {
    let mut c = two_channel_client(kani::any());
    let before = obs(&c);
    let ch_id: u8 = kani::any();
    let len: usize = kani::any();
    kani::assume(len <= 1200);
    let q = any_id();
    kani::assume(q + 1 < IDMAX);
    stage_packet(Packet::SmallUnreliable { sequence: q, channel_id: ch_id, messages: vec![vbytes(len, 7)] });
    let buf = [1u8; 4];
    c.process_packet(&buf);
    let after = obs(&c);
    assert!(after.0 == before.0 && after.1 == before.1 && after.2 == before.2, "an unreliable message touched a send channel or the reliable receive channel");
    let um = c.receive_unreliable_channels.get(&1).map(|u| crate::channel::unreliable::verif_kani::recv_mem(u)).unwrap();
    if ch_id == 1 {
        assert!(!c.is_disconnected() && um == len, "message not queued (once) on the unreliable channel it was addressed to");
    } else {
        assert!(c.disconnect_reason() == Some(DisconnectReason::ReceivedInvalidChannelId(ch_id)) && um == 0);
    }
    std::mem::forget(c);
}

/// vacuity witness of the contract variant (must FAIL)
#[kani::proof]
#[kani::unwind(8)]
fn rcc_witness() {
    let mut c = two_channel_client(true);
    stage_packet(Packet::Ack { sequence: 5, ack_ranges: vec![1..2] });
    let buf = [4u8; 4];
    c.process_packet(&buf);
    if c.pending_acks.len() == 1 {
        assert!(false, "witness");
    }
    std::mem::forget(c);
}
