// Harnesses for renet/src/channel/unreliable.rs  (C03, C06, C09, C13, C14)
// Variant: model containers + LenBytes.  Pre-states are built by the constructors and filled in place.
use super::*;
use crate::channel::slice_constructor::verif_kani::{mk_constructor, sc_inv, sc_received};
use crate::verif_models::{is_window, vbytes};

const IDMAX: u64 = 1 << 62;
const LENMAX: usize = 4000;
const MEMMAX: usize = 1 << 40;
const SHORT: usize = 3;

fn any_id() -> u64 {
    let x: u64 = kani::any();
    kani::assume(x < IDMAX);
    x
}
fn any_secs() -> Duration {
    let s: u64 = kani::any();
    kani::assume(s < (1 << 40));
    Duration::from_secs(s)
}

// ================================================================================================
// send side
// ================================================================================================

macro_rules! us_send {
    ($name:ident, $n:expr) => {
        /// send_message: queued exactly once iff it fits the budget, dropped whole otherwise
        #[kani::proof]
        #[kani::unwind(6)]
        fn $name() {
            let mut ch = SendChannelUnreliable::new(kani::any(), 0);
            let mut sum = 0usize;
            let mut i = 0;
            while i < $n {
                let l: usize = kani::any();
                kani::assume(l <= LENMAX);
                sum += l;
                ch.unreliable_messages.slots[i] = Some(vbytes(l, 100 + i as u32));
                ch.unreliable_messages.len = i + 1;
                i += 1;
            }
            let max: usize = kani::any();
            kani::assume(max <= MEMMAX && sum <= max);
            ch.max_memory_usage_bytes = max;
            ch.memory_usage_bytes = sum;
            let len: usize = kani::any();
            kani::assume(len <= LENMAX);
            assert!(ch.available_memory() == max - sum);
            let can = ch.can_send_message(len);
            ch.send_message(vbytes(len, 7));
            if sum + len <= max {
                assert!(can);
                assert!(ch.unreliable_messages.len() == $n + 1 && ch.memory_usage_bytes == sum + len, "accepted message not queued / accounted");
                match &ch.unreliable_messages.slots[$n] {
                    Some(m) => assert!(is_window(m, 7, 0, len), "queued bytes are not the submitted message"),
                    None => assert!(false),
                }
            } else {
                assert!(!can);
                assert!(ch.unreliable_messages.len() == $n && ch.memory_usage_bytes == sum, "message over budget must be dropped whole");
            }
            assert!(ch.memory_usage_bytes <= max);
            kani::cover!(sum + len > max, "dropped");
            std::mem::forget(ch);
        }
    };
}
us_send!(us_send_n0, 0);
us_send!(us_send_n1, 1);

macro_rules! us_gps {
    ($name:ident, $n:expr) => {
        /// get_packets_to_send: the queue is flushed (empty, accounted memory 0) whatever the budget;
        /// budget deducted == bytes of the messages that fitted at their turn (queue order); a message that
        /// does not fit is dropped whole; sequence advances once per packet; slice-id counter advances once
        /// per sliced message sent
        #[kani::proof]
        #[kani::unwind(6)]
        fn $name() {
            let channel_id: u8 = kani::any();
            let mut ch = SendChannelUnreliable::new(channel_id, MEMMAX);
            let sid0 = any_id();
            kani::assume(sid0 + 4 < IDMAX);
            ch.sliced_message_id = sid0;
            let mut lens = [0usize; $n];
            let mut sum = 0usize;
            let mut i = 0;
            while i < $n {
                lens[i] = kani::any();
                kani::assume(lens[i] <= 2 * SLICE_SIZE);
                sum += lens[i];
                ch.unreliable_messages.slots[i] = Some(vbytes(lens[i], 100 + i as u32));
                ch.unreliable_messages.len = i + 1;
                i += 1;
            }
            ch.memory_usage_bytes = sum;
            let seq0 = any_id();
            kani::assume(seq0 + 8 < IDMAX);
            let mut seq = seq0;
            let avail0: u64 = kani::any();
            let mut avail = avail0;
            let packets = ch.get_packets_to_send(&mut seq, &mut avail, );
            // reference
            let mut a = avail0;
            let mut n_sliced = 0u64;
            let mut n_slice_packets = 0usize;
            let mut n_small = 0usize;
            let mut i = 0;
            while i < $n {
                if a >= lens[i] as u64 {
                    a -= lens[i] as u64;
                    if lens[i] > SLICE_SIZE {
                        n_sliced += 1;
                        n_slice_packets += 2; // lens <= 2400 => exactly 2 slices
                    } else {
                        n_small += 1;
                    }
                }
                i += 1;
            }
            assert!(avail == a, "budget: bytes deducted != bytes of the messages that fitted");
            assert!(ch.unreliable_messages.is_empty(), "queue not flushed");
            assert!(ch.memory_usage_bytes == 0, "flushed bytes not returned to the budget");
            assert!(ch.sliced_message_id == sid0 + n_sliced, "slice id counter");
            assert!(seq == seq0 + packets.len() as u64, "packet sequence must advance once per packet");
            assert!(packets.len() >= n_slice_packets + if n_small > 0 { 1 } else { 0 }, "fitting message not sent");
            assert!(packets.len() <= n_slice_packets + n_small + 1, "more packets than messages");
            kani::cover!(n_sliced >= 1 || $n == 1, "a sliced message was sent");
            kani::cover!(a == avail0 && $n > 0, "everything dropped");
            std::mem::forget(packets);
            std::mem::forget(ch);
        }
    };
}
us_gps!(us_gps_n1, 1);
us_gps!(us_gps_n2, 2);

/// wire form of one small unreliable message (budget unlimited => unconditional push)
#[kani::proof]
#[kani::unwind(6)]
fn us_pack_small() {
    let channel_id: u8 = kani::any();
    let mut ch = SendChannelUnreliable::new(channel_id, MEMMAX);
    let len: usize = kani::any();
    kani::assume(len <= SLICE_SIZE);
    ch.unreliable_messages.slots[0] = Some(vbytes(len, 100));
    ch.unreliable_messages.len = 1;
    ch.memory_usage_bytes = len;
    let seq0 = any_id();
    kani::assume(seq0 + 8 < IDMAX);
    let mut seq = seq0;
    let mut avail = u64::MAX;
    let packets = ch.get_packets_to_send(&mut seq, &mut avail);
    assert!(packets.len() >= 1 && packets.len() <= 2);
    let last = packets.len() - 1;
    let mut p = 0;
    while p < 2 {
        if p == last {
            match &packets[p] {
                Packet::SmallUnreliable { sequence, channel_id: c, messages } => {
                    assert!(*sequence == seq0 + p as u64 && *c == channel_id);
                    assert!(messages.len() == 1 && is_window(&messages[0], 100, 0, len), "packet does not carry exactly the queued message");
                    assert!(1 + 8 + 1 + 2 + 2 + len <= 1300);
                }
                _ => assert!(false, "unexpected packet kind"),
            }
        }
        p += 1;
    }
    std::mem::forget(packets);
    std::mem::forget(ch);
}

/// wire form of one sliced unreliable message (2 slices)
#[kani::proof]
#[kani::unwind(6)]
fn us_pack_sliced() {
    let channel_id: u8 = kani::any();
    let mut ch = SendChannelUnreliable::new(channel_id, MEMMAX);
    let sid0 = any_id();
    ch.sliced_message_id = sid0;
    let len: usize = kani::any();
    kani::assume(len > SLICE_SIZE && len <= 2 * SLICE_SIZE);
    ch.unreliable_messages.slots[0] = Some(vbytes(len, 100));
    ch.unreliable_messages.len = 1;
    ch.memory_usage_bytes = len;
    let seq0 = any_id();
    kani::assume(seq0 + 8 < IDMAX);
    let mut seq = seq0;
    let mut avail = u64::MAX;
    let packets = ch.get_packets_to_send(&mut seq, &mut avail);
    assert!(packets.len() == 2, "a message of (1200, 2400] bytes travels in exactly two slices");
    let mut p = 0;
    while p < 2 {
        match &packets[p] {
            Packet::UnreliableSlice { sequence, channel_id: c, slice } => {
                assert!(*sequence == seq0 + p as u64 && *c == channel_id);
                assert!(slice.message_id == sid0 && slice.num_slices == 2 && slice.slice_index == p);
                let l = if p == 1 { len - SLICE_SIZE } else { SLICE_SIZE };
                assert!(is_window(&slice.payload, 100, p * SLICE_SIZE, l), "slice payload is not bytes [1200 p, ..) of the message");
                assert!(1 + 8 + 1 + 8 + 8 + 8 + 2 + l <= 1300);
            }
            _ => assert!(false, "unexpected packet kind"),
        }
        p += 1;
    }
    std::mem::forget(packets);
    std::mem::forget(ch);
}

// ================================================================================================
// receive side
// ================================================================================================

/// accounted memory recomputed from the state
fn ur_sum(ch: &ReceiveChannelUnreliable) -> usize {
    let mut s = 0usize;
    for m in ch.messages.iter() {
        s += m.len();
    }
    for (_, c) in ch.slices.iter() {
        s += c.num_slices * SLICE_SIZE;
    }
    s
}

/// Inv_K: slices and slices_last_received have the same key set
fn ur_keys_equal(ch: &ReceiveChannelUnreliable) -> bool {
    let mut ok = ch.slices.len() == ch.slices_last_received.len();
    for (k, _) in ch.slices.iter() {
        if !ch.slices_last_received.contains_key(k) {
            ok = false;
        }
    }
    ok
}

macro_rules! ur_msg {
    ($name:ident, $n:expr) => {
        /// process_message / receive_message: pushed once iff within budget, handed out FIFO, bytes returned
        #[kani::proof]
        #[kani::unwind(6)]
        fn $name() {
            let mut ch = ReceiveChannelUnreliable::new(kani::any(), 0);
            let mut lens = [0usize; $n];
            let mut sum = 0usize;
            let mut i = 0;
            while i < $n {
                lens[i] = kani::any();
                kani::assume(lens[i] <= LENMAX);
                sum += lens[i];
                ch.messages.slots[i] = Some(vbytes(lens[i], 100 + i as u32));
                ch.messages.len = i + 1;
                i += 1;
            }
            let max: usize = kani::any();
            kani::assume(max <= MEMMAX && sum <= max);
            ch.max_memory_usage_bytes = max;
            ch.memory_usage_bytes = sum;
            let len: usize = kani::any();
            kani::assume(len <= LENMAX);
            ch.process_message(vbytes(len, 7));
            let accepted = sum + len <= max;
            if accepted {
                assert!(ch.messages.len() == $n + 1 && ch.memory_usage_bytes == sum + len, "message within budget not queued once");
            } else {
                assert!(ch.messages.len() == $n && ch.memory_usage_bytes == sum, "message over budget must be dropped whole");
            }
            assert!(ch.memory_usage_bytes == ur_sum(&ch) && ch.memory_usage_bytes <= max);
            let r = ch.receive_message();
            if $n > 0 {
                match &r {
                    Some(m) => assert!(is_window(m, 100, 0, lens[0]), "not the oldest queued message"),
                    None => assert!(false, "queued message not handed out"),
                }
                assert!(ch.memory_usage_bytes == sum - lens[0] + if accepted { len } else { 0 });
            } else if accepted {
                match &r {
                    Some(m) => assert!(is_window(m, 7, 0, len), "obtained bytes are not the delivered message"),
                    None => assert!(false),
                }
                assert!(ch.memory_usage_bytes == 0);
            } else {
                assert!(r.is_none(), "message fabricated");
            }
            assert!(ch.memory_usage_bytes == ur_sum(&ch));
            kani::cover!(!accepted, "dropped for budget");
            std::mem::forget(r);
            std::mem::forget(ch);
        }
    };
}
ur_msg!(ur_msg_n0, 0);
ur_msg!(ur_msg_n1, 1);

// process_slice on a state with one live constructor (2 slices) - SLICE_SIZE literal rewritten to 8 in the
// staged copy (see rr_slice_* in reliable.rs).  Instance: payload length, last-slice-present, index class,
// same id (num_slices arbitrary) / other id (num_slices 2).
macro_rules! ur_slice {
    ($name:ident, $len:expr, $lastgot:expr, $idx:expr, $same:expr) => {
        #[kani::proof]
        #[kani::unwind(6)]
        fn $name() {
            let now = any_secs();
            let mut ch = ReceiveChannelUnreliable::new(kani::any(), 0);
            let cid = any_id();
            let mut got: [bool; 2] = kani::any();
            got[1] = $lastgot;
            let c = mk_constructor::<2>(cid, got, SHORT);
            kani::assume(sc_inv::<2>(&c));
            ch.slices.slots[0] = Some((cid, c));
            ch.slices.len = 1;
            let t0 = any_secs();
            kani::assume(t0 <= now);
            ch.slices_last_received.slots[0] = Some((cid, t0));
            ch.slices_last_received.len = 1;
            let qlen: usize = kani::any();
            kani::assume(qlen <= LENMAX);
            ch.messages.slots[0] = Some(vbytes(qlen, 50));
            ch.messages.len = 1;
            let pre_mem = qlen + 2 * SLICE_SIZE;
            let max: usize = kani::any();
            kani::assume(max <= MEMMAX && pre_mem <= max);
            ch.max_memory_usage_bytes = max;
            ch.memory_usage_bytes = pre_mem;

            let sid = if $same { cid } else { any_id() };
            kani::assume($same || sid != cid);
            let index: usize = if $idx < 2 { $idx } else { kani::any() };
            kani::assume(index >= $idx);
            let num_slices: usize = if $same { kani::any() } else { 2 };
            kani::assume(num_slices >= 1 && num_slices <= 1_000_000);
            let slice = Slice { message_id: sid, slice_index: index, num_slices, payload: vbytes($len, 9) };
            let r = ch.process_slice(slice, now);
            match &r {
                Ok(()) => {}
                Err(e) => assert!(matches!(e, ChannelError::InvalidSliceMessage)),
            }
            let genuine = $same && num_slices == 2 && index < 2 && (if index == 1 { $len == SHORT } else { $len == SLICE_SIZE });
            if genuine {
                let completes = (got[0] || index == 0) && (got[1] || index == 1);
                if completes {
                    assert!(r.is_ok());
                    assert!(ch.messages.len() == 2, "completed message must surface exactly once");
                    match &ch.messages.slots[1] {
                        Some(m) => assert!(m.len() == SLICE_SIZE + SHORT, "assembled length"),
                        None => assert!(false),
                    }
                    assert!(ch.slices.is_empty() && ch.slices_last_received.is_empty(), "completed constructor kept");
                    assert!(ch.memory_usage_bytes == qlen + SLICE_SIZE + SHORT, "accounting after completion");
                } else {
                    assert!(r.is_ok());
                    assert!(ch.messages.len() == 1, "partial message surfaced");
                    assert!(ch.memory_usage_bytes == pre_mem);
                    match ch.slices.get(&cid) {
                        Some(c) => assert!(sc_inv::<2>(c) && sc_received(c, index)),
                        None => assert!(false, "constructor lost"),
                    }
                    assert!(ch.slices_last_received.get(&cid) == Some(&now), "progress time not refreshed");
                }
            } else if r.is_ok() && !$same {
                assert!(ch.messages.len() == 1, "message surfaced from a single slice of a 2-slice message");
            }
            assert!(ch.memory_usage_bytes == ur_sum(&ch), "accounting invariant (no wrap-around)");
            assert!(ch.memory_usage_bytes <= ch.max_memory_usage_bytes, "budget exceeded");
            if r.is_ok() {
                assert!(ur_keys_equal(&ch), "slices / slices_last_received out of step");
            }
            kani::cover!(true, "returned");
            std::mem::forget(r);
            std::mem::forget(ch);
        }
    };
}
ur_slice!(ur_slice_i0, SLICE_SIZE, false, 0, true);
ur_slice!(ur_slice_i0_done, SLICE_SIZE, true, 0, true);
ur_slice!(ur_slice_i1, SHORT, false, 1, true);
ur_slice!(ur_slice_i1_empty, 0, false, 1, true);
ur_slice!(ur_slice_oob, SLICE_SIZE, false, 2, true);
ur_slice!(ur_slice_other, SLICE_SIZE, false, 0, false);

// discard_incomplete_old_slices: afterwards no fragment older than 3 s keeps counting (C09)
macro_rules! ur_discard {
    ($name:ident, $n:expr) => {
        #[kani::proof]
        #[kani::unwind(6)]
        fn $name() {
            let now = any_secs();
            let mut ch = ReceiveChannelUnreliable::new(kani::any(), MEMMAX);
            let mut ids = [0u64; $n];
            let mut times = [Duration::ZERO; $n];
            let mut i = 0;
            while i < $n {
                ids[i] = any_id();
                if i > 0 {
                    kani::assume(ids[i - 1] < ids[i]);
                }
                times[i] = any_secs();
                kani::assume(times[i] <= now);
                let got: [bool; 2] = [kani::any(), false];
                let c = mk_constructor::<2>(ids[i], got, SHORT);
                ch.slices.slots[i] = Some((ids[i], c));
                ch.slices.len = i + 1;
                ch.slices_last_received.slots[i] = Some((ids[i], times[i]));
                ch.slices_last_received.len = i + 1;
                i += 1;
            }
            ch.memory_usage_bytes = $n * 2 * SLICE_SIZE;
            ch.discard_incomplete_old_slices(now);
            let mut kept = 0usize;
            let mut i = 0;
            while i < $n {
                let stale = now - times[i] >= Duration::from_secs(3);
                if stale {
                    assert!(!ch.slices.contains_key(&ids[i]), "fragments without progress for 3 s still count against the budget");
                } else {
                    assert!(ch.slices.contains_key(&ids[i]), "fresh fragments discarded");
                    kept += 1;
                }
                i += 1;
            }
            assert!(ch.memory_usage_bytes == kept * 2 * SLICE_SIZE && ch.memory_usage_bytes == ur_sum(&ch), "accounting");
            assert!(ur_keys_equal(&ch));
            kani::cover!(kept == 0 && $n > 0, "all discarded");
            kani::cover!(kept == $n, "none discarded");
            std::mem::forget(ch);
        }
    };
}
ur_discard!(ur_discard_n1, 1);
ur_discard!(ur_discard_n2, 2);

#[kani::proof]
#[kani::unwind(6)]
fn ur_init() {
    let s = SendChannelUnreliable::new(kani::any(), kani::any());
    assert!(s.memory_usage_bytes == 0 && s.unreliable_messages.is_empty());
    let r = ReceiveChannelUnreliable::new(kani::any(), kani::any());
    assert!(r.memory_usage_bytes == 0 && r.messages.is_empty() && r.slices.is_empty() && ur_keys_equal(&r));
    std::mem::forget(s);
    std::mem::forget(r);
}

/// vacuity witness (must FAIL)
#[kani::proof]
#[kani::unwind(6)]
fn ur_witness() {
    let mut ch = ReceiveChannelUnreliable::new(1, 100);
    ch.process_message(vbytes(10, 1));
    let r = ch.receive_message();
    if r.is_some() {
        assert!(false, "witness");
    }
    std::mem::forget(r);
    std::mem::forget(ch);
}

pub(crate) fn recv_mem(ch: &ReceiveChannelUnreliable) -> usize {
    ch.memory_usage_bytes
}
