// Harnesses for renet/src/channel/reliable.rs  (C01, C02, C03, C06, C08, C09, C13, C14, C15)
// Variant: model containers + LenBytes (length + identity (blob, off); no content).
use super::*;
use crate::channel::slice_constructor::verif_kani::{mk_constructor, sc_inv, sc_num_received, sc_received};
use crate::verif_models::collections::{BTreeMap as VMap, BTreeSet as VSet};
use crate::verif_models::{is_window, vbytes};

const IDMAX: u64 = 1 << 62; // varint domain (DESIGN section 3)
const LENMAX: usize = 4000;
const MEMMAX: usize = 1 << 40;
/// length of the short last slice used by the receive-side slice lemmas (works for SLICE_SIZE 1200 and the shrunk 8)
const SHORT: usize = 3;

fn any_id() -> u64 {
    let x: u64 = kani::any();
    kani::assume(x < IDMAX);
    x
}
fn any_len() -> usize {
    let x: usize = kani::any();
    kani::assume(x <= LENMAX);
    x
}
fn any_time() -> Duration {
    // whole seconds: Duration::new(s, n) divides the symbolic n by 10^9 (expensive); the sub-second
    // borrow path of Duration subtraction is std code, not renet's
    let s: u64 = kani::any();
    kani::assume(s < (1 << 40));
    Duration::from_secs(s)
}

// ================================================================================================
// receive side
// ================================================================================================

/// pre-state of a receive channel: NM buffered messages (ids strictly ascending), one optional live
/// constructor (2 slices), cursor, order mode with NS remembered ids (unordered only).
struct RecvPre<const NM: usize, const NS: usize> {
    ids: [u64; NM],
    lens: [usize; NM],
    blobs: [u32; NM],
    seen: [u64; NS],
    cons: Option<(u64, [bool; 2])>,
    oldest: u64,
    mem: usize,
    max: usize,
}

fn mk_recv<const NM: usize, const NS: usize>(ordered: bool, with_cons: bool) -> (ReceiveChannelReliable, RecvPre<NM, NS>) {
    mk_recv_lg::<NM, NS>(ordered, with_cons, false)
}

/// `last_got`: whether the live constructor already holds its (short) last slice - fixed per instance
/// because it decides the length of the reassembly buffer
fn mk_recv_lg<const NM: usize, const NS: usize>(ordered: bool, with_cons: bool, last_got: bool) -> (ReceiveChannelReliable, RecvPre<NM, NS>) {
    let oldest = any_id();
    let mut ids = [0u64; NM];
    let mut lens = [0usize; NM];
    let mut blobs = [0u32; NM];
    // The channel is built by its constructor and the model-map slots are then filled IN PLACE (moving
    // enum/struct values through arrays, iterators or struct literals makes CBMC lose field sensitivity)
    let mut ch = ReceiveChannelReliable::new(0, ordered);
    let mut sum = 0usize;
    let mut i = 0;
    while i < NM {
        ids[i] = any_id();
        lens[i] = any_len();
        blobs[i] = kani::any();
        kani::assume(blobs[i] != 0);
        if i > 0 {
            kani::assume(ids[i - 1] < ids[i]);
        }
        if ordered {
            kani::assume(ids[i] >= oldest);
        }
        sum += lens[i];
        ch.messages.slots[i] = Some((ids[i], vbytes(lens[i], blobs[i])));
        ch.messages.len = i + 1;
        i += 1;
    }
    let mut seen = [0u64; NS];
    let mut i = 0;
    while i < NS {
        seen[i] = any_id();
        if i > 0 {
            kani::assume(seen[i - 1] < seen[i]);
        }
        kani::assume(seen[i] >= oldest); // Inv_RU: remembered ids are >= the cursor
        i += 1;
    }
    if !ordered {
        // Inv_RU: every buffered id is remembered or below the cursor
        let mut i = 0;
        while i < NM {
            let mut found = ids[i] < oldest;
            let mut j = 0;
            while j < NS {
                if seen[j] == ids[i] {
                    found = true;
                }
                j += 1;
            }
            kani::assume(found);
            i += 1;
        }
    }
    let cons = if with_cons {
        let cid = any_id();
        let mut got: [bool; 2] = kani::any();
        got[1] = last_got;
        // Inv_LF: a live constructor belongs to an id that was not assembled yet
        kani::assume(cid >= oldest);
        let mut i = 0;
        while i < NM {
            kani::assume(ids[i] != cid);
            i += 1;
        }
        if !ordered {
            let mut j = 0;
            while j < NS {
                kani::assume(seen[j] != cid);
                j += 1;
            }
        }
        sum += 2 * SLICE_SIZE;
        Some((cid, got))
    } else {
        None
    };
    let max: usize = kani::any();
    kani::assume(max <= MEMMAX && sum <= max);
    if let Some((cid, got)) = cons {
        let c = mk_constructor::<2>(cid, got, SHORT);
        kani::assume(sc_inv::<2>(&c));
        ch.slices.slots[0] = Some((cid, c));
        ch.slices.len = 1;
    }
    if let ReliableOrder::Unordered { most_recent_message_id, received_messages } = &mut ch.reliable_order {
        *most_recent_message_id = any_id();
        let mut i = 0;
        while i < NS {
            received_messages.map.slots[i] = Some((seen[i], ()));
            received_messages.map.len = i + 1;
            i += 1;
        }
    }
    ch.oldest_pending_message_id = oldest;
    ch.memory_usage_bytes = sum;
    ch.max_memory_usage_bytes = max;
    (ch, RecvPre { ids, lens, blobs, seen, cons, oldest, mem: sum, max })
}

/// accounted memory recomputed from the post-state (C09): sum of buffered messages + 1200 per reserved slice
fn recv_sum(ch: &ReceiveChannelReliable) -> usize {
    let mut s = 0usize;
    for (_, m) in ch.messages.iter() {
        s += m.len();
    }
    for (_, c) in ch.slices.iter() {
        s += c.num_slices * SLICE_SIZE;
    }
    s
}

fn is_seen(ch: &ReceiveChannelReliable, id: u64) -> bool {
    if id < ch.oldest_pending_message_id {
        return true;
    }
    match &ch.reliable_order {
        ReliableOrder::Ordered => false,
        ReliableOrder::Unordered { received_messages, .. } => received_messages.contains(&id),
    }
}

/// Inv_LF (leak freedom): every live constructor belongs to an id not yet assembled
fn recv_inv_lf(ch: &ReceiveChannelReliable) -> bool {
    let mut ok = true;
    for (id, _) in ch.slices.iter() {
        if ch.messages.contains_key(id) || is_seen(ch, *id) {
            ok = false;
        }
    }
    ok
}

fn pre_has<const NM: usize, const NS: usize>(pre: &RecvPre<NM, NS>, id: u64) -> Option<usize> {
    let mut r = None;
    let mut i = 0;
    while i < NM {
        if pre.ids[i] == id {
            r = Some(i);
        }
        i += 1;
    }
    r
}
fn pre_seen<const NM: usize, const NS: usize>(pre: &RecvPre<NM, NS>, ordered: bool, id: u64) -> bool {
    if id < pre.oldest {
        return true;
    }
    if ordered {
        return false;
    }
    let mut r = false;
    let mut j = 0;
    while j < NS {
        if pre.seen[j] == id {
            r = true;
        }
        j += 1;
    }
    r
}

// ---- process_message: one step from an arbitrary state -----------------------------------------
// (C01/C02 buffering exactly once with its own content, C06 any id/len, C09 accounting)
macro_rules! rr_msg {
    ($name:ident, $ordered:expr, $nm:expr, $ns:expr, $cons:expr) => {
        #[kani::proof]
        #[kani::unwind(6)]
        fn $name() {
            let (mut ch, pre) = mk_recv::<$nm, $ns>($ordered, $cons);
            let id = any_id();
            let len = any_len();
            let blob: u32 = kani::any();
            kani::assume(blob != 0);
            let w = any_id(); // witness id: any other buffered message must stay as it is
            if let Some((cid, _)) = pre.cons {
                // genuine sender: an id is either a small message or a sliced one, never both
                kani::assume(id != cid);
            }
            let r = ch.process_message(vbytes(len, blob), id);
            let had = pre_has(&pre, id).is_some();
            let seen = pre_seen(&pre, $ordered, id);
            let dup = if $ordered { had || id < pre.oldest } else { seen };
            match &r {
                Ok(()) => {
                    if dup {
                        assert!(ch.memory_usage_bytes == pre.mem, "duplicate changed the accounting");
                        assert!(ch.messages.len() == $nm, "duplicate buffered again");
                        if !had {
                            assert!(!ch.messages.contains_key(&id), "already delivered id buffered again");
                        }
                    } else {
                        assert!(pre.mem + len <= pre.max, "accepted beyond the budget");
                        assert!(ch.memory_usage_bytes == pre.mem + len, "accounting");
                        assert!(ch.messages.len() == $nm + 1);
                        match ch.messages.get(&id) {
                            Some(m) => assert!(is_window(m, blob, 0, len), "buffered content is not the submitted message"),
                            None => assert!(false, "accepted message not buffered"),
                        }
                        assert!($ordered || is_seen(&ch, id), "unordered: accepted id not remembered");
                    }
                }
                Err(e) => {
                    assert!(matches!(e, ChannelError::ReliableChannelMaxMemoryReached));
                    assert!(!dup && pre.mem + len > pre.max, "budget error although the message fits");
                    assert!(ch.memory_usage_bytes == pre.mem && ch.messages.len() == $nm);
                }
            }
            // frame: every previously buffered message is still there, untouched
            if let Some(i) = pre_has(&pre, w) {
                if w != id || had {
                    match ch.messages.get(&w) {
                        Some(m) => assert!(is_window(m, pre.blobs[i], 0, pre.lens[i]), "buffered message changed"),
                        None => assert!(false, "buffered message lost"),
                    }
                }
            }
            assert!(ch.oldest_pending_message_id == pre.oldest, "cursor moved by an arrival");
            assert!(ch.memory_usage_bytes == recv_sum(&ch) && ch.memory_usage_bytes <= ch.max_memory_usage_bytes, "accounting invariant");
            assert!(recv_inv_lf(&ch), "Inv_LF");
            kani::cover!(r.is_ok() && !dup, "new message buffered");
            kani::cover!(r.is_err(), "budget exhausted");
            std::mem::forget(r);
            std::mem::forget(ch);
        }
    };
}
rr_msg!(rr_msg_ord_m0, true, 0, 0, false);
rr_msg!(rr_msg_ord_m1, true, 1, 0, false);
rr_msg!(rr_msg_ord_m1c, true, 1, 0, true);
rr_msg!(rr_msg_unord_m0, false, 0, 1, false);
rr_msg!(rr_msg_unord_m1, false, 1, 1, false);
rr_msg!(rr_msg_unord_m1c, false, 1, 1, true);
rr_msg!(rr_msg_ord_m2, true, 2, 0, false);
rr_msg!(rr_msg_unord_m2, false, 2, 2, false);

// ---- receive_message: one step ---------------------------------------------------------------------
macro_rules! rr_recv_ord {
    ($name:ident, $nm:expr, $cons:expr) => {
        /// ordered: Some(x) <=> the cursor id is buffered; x is that message; cursor + 1; nothing else changes
        #[kani::proof]
        #[kani::unwind(6)]
        fn $name() {
            let (mut ch, pre) = mk_recv::<$nm, 0>(true, $cons);
            let w = any_id();
            let r = ch.receive_message();
            let at = pre_has(&pre, pre.oldest);
            match (&r, at) {
                (Some(m), Some(i)) => {
                    assert!(is_window(m, pre.blobs[i], 0, pre.lens[i]), "delivered content is not the message buffered for the cursor id");
                    assert!(ch.oldest_pending_message_id == pre.oldest + 1, "cursor must advance by one");
                    assert!(ch.memory_usage_bytes == pre.mem - pre.lens[i], "accounting");
                    assert!(!ch.messages.contains_key(&pre.oldest) && ch.messages.len() == $nm - 1);
                }
                (None, None) => {
                    assert!(ch.oldest_pending_message_id == pre.oldest && ch.memory_usage_bytes == pre.mem && ch.messages.len() == $nm);
                }
                (Some(_), None) => assert!(false, "delivered although the next message in order is missing (gap / reordering)"),
                (None, Some(_)) => assert!(false, "next message in order is buffered but was not delivered"),
            }
            if let Some(i) = pre_has(&pre, w) {
                if w != pre.oldest {
                    match ch.messages.get(&w) {
                        Some(m) => assert!(is_window(m, pre.blobs[i], 0, pre.lens[i]), "other buffered message changed"),
                        None => assert!(false, "other buffered message lost"),
                    }
                }
            }
            assert!(ch.memory_usage_bytes == recv_sum(&ch) && ch.memory_usage_bytes <= ch.max_memory_usage_bytes, "accounting invariant");
            assert!(recv_inv_lf(&ch), "Inv_LF");
            // Inv_RO: all keys stay >= cursor
            for (k, _) in ch.messages.iter() {
                assert!(*k >= ch.oldest_pending_message_id, "buffered id below the cursor");
            }
            kani::cover!(r.is_some(), "delivered");
            kani::cover!(r.is_none() && $nm > 0, "waiting for a gap");
            std::mem::forget(r);
            std::mem::forget(ch);
        }
    };
}
rr_recv_ord!(rr_recv_ord_m1, 1, false);
rr_recv_ord!(rr_recv_ord_m2, 2, false);
rr_recv_ord!(rr_recv_ord_m1c, 1, true);

macro_rules! rr_recv_unord {
    ($name:ident, $nm:expr, $ns:expr, $cons:expr) => {
        /// unordered: delivers the smallest buffered id (never waits); the id stays "seen" (so a
        /// late duplicate is rejected); `seen` is monotone; nothing else changes
        #[kani::proof]
        #[kani::unwind(6)]
        fn $name() {
            let (mut ch, pre) = mk_recv::<$nm, $ns>(false, $cons);
            let w = any_id();
            let w_seen_pre = pre_seen(&pre, false, w);
            let r = ch.receive_message();
            if $nm == 0 {
                assert!(r.is_none());
                assert!(ch.oldest_pending_message_id == pre.oldest && ch.memory_usage_bytes == pre.mem);
            } else {
                match &r {
                    Some(m) => {
                        assert!(is_window(m, pre.blobs[0], 0, pre.lens[0]), "delivered content is not a buffered message");
                        assert!(ch.memory_usage_bytes == pre.mem - pre.lens[0], "accounting");
                        assert!(!ch.messages.contains_key(&pre.ids[0]) && ch.messages.len() == $nm - 1, "delivered message still buffered");
                        assert!(is_seen(&ch, pre.ids[0]), "delivered id forgotten: a duplicate would be delivered again");
                    }
                    None => assert!(false, "complete message not handed over (unordered channel must not wait)"),
                }
            }
            assert!(ch.oldest_pending_message_id >= pre.oldest, "cursor went backwards");
            if w_seen_pre {
                assert!(is_seen(&ch, w), "a seen id became unseen");
            }
            if let Some(i) = pre_has(&pre, w) {
                if i != 0 {
                    match ch.messages.get(&w) {
                        Some(m) => assert!(is_window(m, pre.blobs[i], 0, pre.lens[i]), "other buffered message changed"),
                        None => assert!(false, "other buffered message lost"),
                    }
                    assert!(is_seen(&ch, w), "buffered id not seen");
                }
            }
            // cursor only skips ids that are seen: w in [old cursor, new cursor) => it was remembered
            if w >= pre.oldest && w < ch.oldest_pending_message_id {
                assert!(w_seen_pre, "cursor skipped an id that never arrived");
            }
            assert!(ch.memory_usage_bytes == recv_sum(&ch) && ch.memory_usage_bytes <= ch.max_memory_usage_bytes, "accounting invariant");
            assert!(recv_inv_lf(&ch), "Inv_LF");
            kani::cover!(ch.oldest_pending_message_id > pre.oldest, "cursor advanced");
            std::mem::forget(r);
            std::mem::forget(ch);
        }
    };
}
rr_recv_unord!(rr_recv_unord_m0, 0, 1, false);
rr_recv_unord!(rr_recv_unord_m1, 1, 1, false);
rr_recv_unord!(rr_recv_unord_m1s2, 1, 2, false);
rr_recv_unord!(rr_recv_unord_m2, 2, 2, false);
rr_recv_unord!(rr_recv_unord_m1c, 1, 1, true);

// ---- process_slice: one step, ANY V-valid slice (hostile included) ------------------------------
// V (established by Packet::from_bytes, lemma parse_total_*): 1 <= num_slices <= 10^6, payload <= 1200.
// These lemmas run on a staged copy whose SLICE_SIZE literal is rewritten 1200 -> 8 (the channel code is
// parametric in it; the real size made every instance exceed 16 GB; SliceConstructor itself is verified
// at the real size by sc_step_* / sc_hostile_*).
// A constructor (2 slices, last slice short = 3 bytes) for id `cid` is live and one message is buffered.
// Instance parameters (discrete structure concrete): order mode; payload length; whether the last
// slice is already in; the slice index class (0, 1, out of range = any usize >= 2); whether the slice
// addresses the live constructor (then its num_slices is ARBITRARY - it may contradict the first
// slice's) or some other id (buffered, consumed, or fresh; a fresh id allocates, so num_slices == 2).
macro_rules! rr_slice {
    ($name:ident, $ordered:expr, $ns:expr, $len:expr, $lastgot:expr, $idx:expr, $same:expr) => {
        #[kani::proof]
        #[kani::unwind(6)]
        fn $name() {
            let (mut ch, pre) = mk_recv_lg::<1, $ns>($ordered, true, $lastgot);
            let (cid, got) = pre.cons.unwrap();
            let sid = if $same { cid } else { any_id() };
            kani::assume($same || sid != cid);
            let index: usize = if $idx < 2 { $idx } else { kani::any() };
            kani::assume(index >= $idx);
            let num_slices: usize = if $same { kani::any() } else { 2 };
            kani::assume(num_slices >= 1 && num_slices <= 1_000_000);
            let slice = Slice {
                message_id: sid,
                slice_index: index,
                num_slices,
                payload: vbytes($len, 9),
            };
            let assembled = pre_has(&pre, sid).is_some() || pre_seen(&pre, $ordered, sid);
            let r = ch.process_slice(slice);
            if assembled {
                // duplicate of something already assembled / consumed: nothing may change
                assert!(r.is_ok());
                assert!(ch.memory_usage_bytes == pre.mem, "slice of an already assembled message changed the accounting (leak)");
                assert!(ch.slices.len() == 1 && !ch.slices.contains_key(&sid), "constructor created for an already assembled message");
            }
            match &r {
                Ok(()) => {}
                Err(e) => assert!(matches!(e, ChannelError::ReliableChannelMaxMemoryReached | ChannelError::InvalidSliceMessage)),
            }
            // genuine slice for the live constructor: right count, index in range, right size
            let genuine = $same && num_slices == 2 && index < 2 && (if index == 1 { $len == SHORT } else { $len == SLICE_SIZE });
            if genuine {
                let completes = (got[0] || index == 0) && (got[1] || index == 1);
                let total = SLICE_SIZE + SHORT;
                if completes {
                    match &r {
                        Ok(()) => {
                            assert!(!ch.slices.contains_key(&cid), "completed constructor kept");
                            match ch.messages.get(&cid) {
                                Some(m) => assert!(m.len() == total, "assembled length"),
                                None => assert!(false, "completed message not buffered"),
                            }
                            assert!(ch.memory_usage_bytes == pre.mem - 2 * SLICE_SIZE + total, "accounting after completion");
                        }
                        Err(_) => assert!(false, "completion failed although reservation >= message"),
                    }
                } else {
                    assert!(r.is_ok());
                    assert!(ch.memory_usage_bytes == pre.mem);
                    match ch.slices.get(&cid) {
                        Some(c) => assert!(sc_inv::<2>(c) && sc_received(c, index)),
                        None => assert!(false, "constructor lost"),
                    }
                }
            }
            if !$same && !assembled {
                // fresh id: either refused for budget or a second constructor with its reservation
                match &r {
                    Ok(()) => assert!(ch.slices.len() == 2 && ch.memory_usage_bytes == pre.mem + 2 * SLICE_SIZE),
                    Err(_) => {}
                }
            }
            assert!(ch.oldest_pending_message_id == pre.oldest);
            assert!(ch.memory_usage_bytes == recv_sum(&ch), "accounting invariant (no wrap-around)");
            assert!(ch.memory_usage_bytes <= ch.max_memory_usage_bytes, "budget exceeded");
            if r.is_ok() {
                assert!(recv_inv_lf(&ch), "Inv_LF: constructor for an id that is already assembled (its reservation can never be returned)");
            }
            kani::cover!(true, "returned");
            std::mem::forget(r);
            std::mem::forget(ch);
        }
    };
}
// same constructor
rr_slice!(rr_slice_ord_i0, true, 0, SLICE_SIZE, false, 0, true);
rr_slice!(rr_slice_ord_i0_done, true, 0, SLICE_SIZE, true, 0, true);
rr_slice!(rr_slice_ord_i1, true, 0, SHORT, false, 1, true);
rr_slice!(rr_slice_ord_i1_full, true, 0, SLICE_SIZE, false, 1, true);
rr_slice!(rr_slice_ord_i1_dup, true, 0, SHORT, true, 1, true);
rr_slice!(rr_slice_ord_oob, true, 0, SLICE_SIZE, false, 2, true);
rr_slice!(rr_slice_unord_i0_done, false, 1, SLICE_SIZE, true, 0, true);
rr_slice!(rr_slice_unord_i1, false, 1, SHORT, false, 1, true);
rr_slice!(rr_slice_unord_oob, false, 1, SLICE_SIZE, false, 2, true);
// other id (buffered / consumed / fresh)
rr_slice!(rr_slice_ord_other, true, 0, SLICE_SIZE, false, 0, false);
rr_slice!(rr_slice_unord_other, false, 1, SLICE_SIZE, false, 0, false);
rr_slice!(rr_slice_unord_other_s2, false, 2, SLICE_SIZE, false, 0, false);

/// constructor state: fresh channels are empty, cursor 0, invariants hold
#[kani::proof]
#[kani::unwind(6)]
fn rr_init() {
    let max: usize = kani::any();
    let ordered: bool = kani::any();
    let ch = ReceiveChannelReliable::new(max, ordered);
    assert!(ch.memory_usage_bytes == 0 && ch.oldest_pending_message_id == 0 && ch.messages.is_empty() && ch.slices.is_empty());
    assert!(recv_sum(&ch) == 0 && recv_inv_lf(&ch));
    std::mem::forget(ch);
}

/// vacuity witness (must FAIL)
#[kani::proof]
#[kani::unwind(6)]
fn rr_witness() {
    let (mut ch, _pre) = mk_recv::<1, 1>(false, true);
    let r = ch.receive_message();
    if r.is_some() {
        assert!(false, "witness");
    }
    std::mem::forget(r);
    std::mem::forget(ch);
}

// ================================================================================================
// send side
// ================================================================================================

fn one_entry(e: (u64, UnackedMessage)) -> VMap<u64, UnackedMessage> {
    let mut m: VMap<u64, UnackedMessage> = VMap::new();
    m.slots[0] = Some(e);
    m.len = 1;
    m
}

fn varint_len(v: u64) -> usize {
    if v <= 63 {
        1
    } else if v <= 16383 {
        2
    } else if v <= 1_073_741_823 {
        4
    } else {
        8
    }
}

fn opt_time(now: Duration) -> Option<Duration> {
    if kani::any() {
        let t = any_time();
        kani::assume(t <= now);
        Some(t)
    } else {
        None
    }
}

/// is a message whose last transmission was `last` due at `now`?
fn due(last: Option<Duration>, now: Duration, resend: Duration) -> bool {
    match last {
        None => true,
        Some(t) => now - t >= resend,
    }
}

fn send_sum(ch: &SendChannelReliable) -> usize {
    let mut s = 0usize;
    for (_, m) in ch.unacked_messages.iter() {
        s += match m {
            UnackedMessage::Small { message, .. } => message.len(),
            UnackedMessage::Sliced { message, .. } => message.len(),
        };
    }
    s
}

// ---- send_message (C01/C02 ids assigned once, C09 accounting, C03 slicing plan) --------------------
macro_rules! rs_send {
    ($name:ident, $n:expr) => {
        #[kani::proof]
        #[kani::unwind(6)]
        fn $name() {
            // $n small messages already queued
            let next = any_id();
            kani::assume(next + 1 < IDMAX);
            let mut ch = SendChannelReliable::new(kani::any(), any_time(), 0);
            ch.next_reliable_message_id = next;
            let mut sum = 0usize;
            let mut ids = [0u64; $n];
            let mut i = 0;
            while i < $n {
                ids[i] = any_id();
                kani::assume(ids[i] < next);
                if i > 0 {
                    kani::assume(ids[i - 1] < ids[i]);
                }
                let l: usize = kani::any();
                kani::assume(l <= SLICE_SIZE);
                sum += l;
                ch.unacked_messages.slots[i] = Some((ids[i], UnackedMessage::Small { message: vbytes(l, 100 + i as u32), last_sent: None }));
                ch.unacked_messages.len = i + 1;
                i += 1;
            }
            let max: usize = kani::any();
            kani::assume(max <= MEMMAX && sum <= max);
            ch.max_memory_usage_bytes = max;
            ch.memory_usage_bytes = sum;
            let len = any_len();
            let avail = ch.available_memory();
            assert!(avail == max - sum);
            let can = ch.can_send_message(len);
            let r = ch.send_message(vbytes(len, 7));
            match &r {
                Ok(()) => {
                    assert!(can && sum + len <= max, "accepted beyond the budget");
                    assert!(ch.next_reliable_message_id == next + 1, "id counter must advance by one");
                    assert!(ch.memory_usage_bytes == sum + len);
                    assert!(ch.unacked_messages.len() == $n + 1);
                    match ch.unacked_messages.get(&next) {
                        Some(UnackedMessage::Small { message, last_sent }) => {
                            assert!(len <= SLICE_SIZE, "message above the slice size stored as small");
                            assert!(is_window(message, 7, 0, len) && last_sent.is_none());
                        }
                        Some(UnackedMessage::Sliced { message, num_slices, num_acked_slices, next_slice_to_send, acked, last_sent }) => {
                            assert!(len > SLICE_SIZE, "small message stored as sliced");
                            assert!(is_window(message, 7, 0, len));
                            // ceil(len / 1200) without division on the harness side
                            assert!((*num_slices - 1) * SLICE_SIZE < len && len <= *num_slices * SLICE_SIZE, "slice count is not ceil(len/1200)");
                            assert!(*num_acked_slices == 0 && *next_slice_to_send == 0 && acked.len() == *num_slices && last_sent.len() == *num_slices);
                        }
                        None => assert!(false, "accepted message not queued under the assigned id"),
                    }
                }
                Err(e) => {
                    assert!(matches!(e, ChannelError::ReliableChannelMaxMemoryReached));
                    assert!(!can && sum + len > max, "refused although the message fits");
                    assert!(ch.next_reliable_message_id == next && ch.memory_usage_bytes == sum && ch.unacked_messages.len() == $n);
                }
            }
            assert!(ch.memory_usage_bytes == send_sum(&ch) && ch.memory_usage_bytes <= max, "accounting invariant");
            kani::cover!(r.is_ok() && len > SLICE_SIZE, "sliced message queued");
            kani::cover!(r.is_ok() && len == 0, "empty message queued");
            kani::cover!(r.is_err(), "refused");
            std::mem::forget(r);
            std::mem::forget(ch);
        }
    };
}
rs_send!(rs_send_n0, 0);
rs_send!(rs_send_n1, 1);

// ---- get_packets_to_send, small messages (C03 packing, C13 size, C14 budget, C15 timing) -----------
macro_rules! rs_gps_small {
    ($name:ident, $n:expr) => {
        #[kani::proof]
        #[kani::unwind(6)]
        fn $name() {
            let now = any_time();
            let resend = any_time();
            let next = any_id();
            let mut ids = [0u64; $n];
            let mut lens = [0usize; $n];
            let mut lasts: [Option<Duration>; $n] = [None; $n];
            let channel_id: u8 = kani::any();
            let mut ch = SendChannelReliable::new(channel_id, resend, MEMMAX);
            ch.next_reliable_message_id = next;
            let mut sum = 0usize;
            let mut i = 0;
            while i < $n {
                ids[i] = any_id();
                kani::assume(ids[i] < next);
                if i > 0 {
                    kani::assume(ids[i - 1] < ids[i]);
                }
                lens[i] = kani::any();
                kani::assume(lens[i] <= SLICE_SIZE);
                lasts[i] = opt_time(now);
                sum += lens[i];
                ch.unacked_messages.slots[i] = Some((ids[i], UnackedMessage::Small { message: vbytes(lens[i], 100 + i as u32), last_sent: lasts[i] }));
                ch.unacked_messages.len = i + 1;
                i += 1;
            }
            ch.memory_usage_bytes = sum;
            let seq0 = any_id();
            kani::assume(seq0 + 4 < IDMAX);
            let mut seq = seq0;
            let avail0: u64 = kani::any();
            let mut avail = avail0;
            let packets = ch.get_packets_to_send(&mut seq, &mut avail, now);

            // reference: thread the budget through the messages in id order
            let mut emit = [false; $n];
            let mut a = avail0;
            let mut n_emit = 0usize;
            let mut i = 0;
            while i < $n {
                emit[i] = a >= lens[i] as u64 && due(lasts[i], now, resend);
                if emit[i] {
                    a -= lens[i] as u64;
                    n_emit += 1;
                }
                i += 1;
            }
            assert!(avail == a, "budget: bytes deducted != bytes of the messages emitted");
            assert!(avail <= avail0);
            // timers: refreshed exactly for the emitted ones
            let mut i = 0;
            while i < $n {
                match ch.unacked_messages.get(&ids[i]) {
                    Some(UnackedMessage::Small { message, last_sent }) => {
                        assert!(is_window(message, 100 + i as u32, 0, lens[i]), "queued message changed");
                        if emit[i] {
                            assert!(*last_sent == Some(now), "emitted but timer not refreshed");
                        } else {
                            assert!(*last_sent == lasts[i], "not emitted but timer changed");
                        }
                    }
                    _ => assert!(false, "unacked message lost by get_packets_to_send"),
                }
                i += 1;
            }
            assert!(ch.memory_usage_bytes == sum && ch.unacked_messages.len() == $n, "sending must not release memory");
            assert!(seq == seq0 + packets.len() as u64, "packet sequence must advance once per packet");
            assert!(packets.len() <= n_emit + 1, "more packets than emitted messages (+1 possible empty leading packet)");
            if n_emit == 0 {
                assert!(packets.is_empty(), "packet emitted although nothing is due / affordable");
            }
            kani::cover!(n_emit == $n, "all emitted");
            kani::cover!(n_emit == 0 && $n > 0, "none emitted");
            kani::cover!(packets.len() == 2, "two packets");
            std::mem::forget(packets);
            std::mem::forget(ch);
        }
    };
}
rs_gps_small!(rs_gps_small_n1, 1);
rs_gps_small!(rs_gps_small_n2, 2);

// ---- packing of small messages into packets (C03 identity / exactly once / order, C13 size) ---------
// Timers None and budget unlimited (both concrete: their gating is covered by rs_gps_small_*); ids,
// lengths 0..=1200 and the packet sequence are symbolic, so the packing threshold
// `bytes so far + len + varint(len) + varint(id) > 1200` is explored across all varint width classes.
macro_rules! rs_pack_small {
    ($name:ident, $n:expr) => {
        #[kani::proof]
        #[kani::unwind(6)]
        fn $name() {
            let now = any_time();
            let channel_id: u8 = kani::any();
            let mut ch = SendChannelReliable::new(channel_id, any_time(), MEMMAX);
            let next = any_id();
            ch.next_reliable_message_id = next;
            let mut ids = [0u64; $n];
            let mut lens = [0usize; $n];
            let mut sum = 0usize;
            let mut i = 0;
            while i < $n {
                ids[i] = any_id();
                kani::assume(ids[i] < next);
                if i > 0 {
                    kani::assume(ids[i - 1] < ids[i]);
                }
                lens[i] = kani::any();
                kani::assume(lens[i] <= SLICE_SIZE);
                sum += lens[i];
                ch.unacked_messages.slots[i] = Some((ids[i], UnackedMessage::Small { message: vbytes(lens[i], 100 + i as u32), last_sent: None }));
                ch.unacked_messages.len = i + 1;
                i += 1;
            }
            ch.memory_usage_bytes = sum;
            let seq0 = any_id();
            kani::assume(seq0 + 4 < IDMAX);
            let mut seq = seq0;
            let mut avail = u64::MAX;
            let packets = ch.get_packets_to_send(&mut seq, &mut avail, now);
            let emit = [true; $n];
            let n_emit = $n;
            assert!(avail == u64::MAX - sum as u64);
            // packets: sequence numbers consecutive, every listed message is an emitted one, counts match.
            // (No nested loops over the returned Vec<Packet>: witness indices pi/mi and pj/mj instead.)
            assert!(seq == seq0 + packets.len() as u64, "packet sequence must advance once per packet");
            assert!(packets.len() <= n_emit + 1, "more packets than emitted messages (+1 possible empty leading packet)");
            let mut listed = 0usize;
            let mut p = 0;
            while p < $n + 1 {
                if p < packets.len() {
                    if let Packet::SmallReliable { messages, .. } = &packets[p] {
                        listed += messages.len();
                    }
                }
                p += 1;
            }
            assert!(listed == n_emit, "every emitted message must be listed exactly once");
            // (concrete indices only: a symbolic index into the returned heap Vec costs > 50 GB)
            let mut pi = 0;
            while pi < $n + 1 {
                if pi < packets.len() {
                    match &packets[pi] {
                        Packet::SmallReliable { sequence, channel_id: c, messages } => {
                            assert!(*sequence == seq0 + pi as u64 && *c == channel_id);
                            // (an EMPTY SmallReliable packet precedes a first message whose serialized size alone
                            // exceeds the threshold - wasteful but harmless, not asserted against)
                            assert!(messages.len() <= $n);
                            let mut body = 0usize;
                            let mut mi = 0;
                            while mi < $n {
                                if mi < messages.len() {
                                    let (mid, msg) = &messages[mi];
                                    body += varint_len(*mid) + varint_len(msg.len() as u64) + msg.len();
                                    let mut found = false;
                                    let mut k = 0;
                                    while k < $n {
                                        if ids[k] == *mid {
                                            found = true;
                                            assert!(emit[k], "message sent although not due / not within budget");
                                            assert!(is_window(msg, 100 + k as u32, 0, lens[k]), "packet carries other bytes than the queued message");
                                        }
                                        k += 1;
                                    }
                                    assert!(found, "packet lists an id that is not queued");
                                }
                                mi += 1;
                            }
                            // C13: serialized size of the whole packet
                            assert!(1 + 8 + 1 + 2 + body <= 1300, "packet can exceed NETCODE_MAX_PAYLOAD_BYTES");
                            if messages.len() == 2 {
                                assert!(body <= SLICE_SIZE, "packing threshold exceeded");
                                assert!(messages[0].0 < messages[1].0, "messages out of queue order / duplicated in one packet");
                            }
                        }
                        _ => assert!(false, "unexpected packet kind"),
                    }
                }
                pi += 1;
            }
            // messages spread over several packets: distinct ids (with listed == n_emit: exactly once).
            // Concrete indices only.
            let mut first_ids = [0u64; $n + 1];
            let mut has_first = [false; $n + 1];
            let mut p = 0;
            while p < $n + 1 {
                if p < packets.len() {
                    if let Packet::SmallReliable { messages, .. } = &packets[p] {
                        if !messages.is_empty() {
                            first_ids[p] = messages[0].0;
                            has_first[p] = true;
                        }
                    }
                }
                p += 1;
            }
            let mut p = 0;
            while p < $n {
                if has_first[p] && has_first[p + 1] {
                    assert!(first_ids[p] != first_ids[p + 1], "message duplicated across packets");
                }
                p += 1;
            }

            kani::cover!(packets.len() == $n, "one packet per message");
            kani::cover!(packets.len() == 1, "all in one packet");
            std::mem::forget(packets);
            std::mem::forget(ch);
        }
    };
}
rs_pack_small!(rs_pack_small_n1, 1);
rs_pack_small!(rs_pack_small_n2, 2);

// ---- C13: size of SmallReliable packets for THREE queued messages -------------------------------------------
// Reads only `messages.len()` of each returned packet (concrete indices) and attributes the emitted messages
// to packets in id order (order / identity / exactly-once are lemma rs_pack_small_*): every packet must
// serialize to <= 1300 bytes for all lengths 0..=1200 and all varint width classes of ids and lengths.
#[kani::proof]
#[kani::unwind(7)]
fn rs_size_small_n3() {
    let now = any_time();
    let channel_id: u8 = kani::any();
    let mut ch = SendChannelReliable::new(channel_id, any_time(), MEMMAX);
    let next = any_id();
    ch.next_reliable_message_id = next;
    let mut ids = [0u64; 3];
    let mut lens = [0usize; 3];
    let mut sum = 0usize;
    let mut i = 0;
    while i < 3 {
        ids[i] = any_id();
        kani::assume(ids[i] < next);
        if i > 0 {
            kani::assume(ids[i - 1] < ids[i]);
        }
        lens[i] = kani::any();
        kani::assume(lens[i] <= SLICE_SIZE);
        sum += lens[i];
        ch.unacked_messages.slots[i] = Some((ids[i], UnackedMessage::Small { message: vbytes(lens[i], 100 + i as u32), last_sent: None }));
        ch.unacked_messages.len = i + 1;
        i += 1;
    }
    ch.memory_usage_bytes = sum;
    let seq0 = any_id();
    kani::assume(seq0 + 8 < IDMAX);
    let mut seq = seq0;
    let mut avail = u64::MAX;
    let packets = ch.get_packets_to_send(&mut seq, &mut avail, now);
    assert!(packets.len() <= 4);
    let mut next_msg = 0usize;
    let mut p = 0;
    while p < 4 {
        if p < packets.len() {
            if let Packet::SmallReliable { messages, .. } = &packets[p] {
                let cnt = messages.len();
                assert!(next_msg + cnt <= 3, "more messages listed than queued");
                let mut body = 0usize;
                let mut k = 0;
                while k < 3 {
                    if k >= next_msg && k < next_msg + cnt {
                        body += varint_len(ids[k]) + varint_len(lens[k] as u64) + lens[k];
                    }
                    k += 1;
                }
                next_msg += cnt;
                assert!(1 + 8 + 1 + 2 + body <= 1300, "a SmallReliable packet can exceed NETCODE_MAX_PAYLOAD_BYTES (1300)");
            }
        }
        p += 1;
    }
    assert!(next_msg == 3, "not every due message was listed");
    kani::cover!(packets.len() == 2, "two packets");
    kani::cover!(packets.len() == 3, "three packets");
    std::mem::forget(packets);
    std::mem::forget(ch);
}

// ---- get_packets_to_send, one sliced message ------------------------------------------------------
// instance: number of slices N (2 or 3); message length symbolic in ((N-1)*1200, N*1200]
macro_rules! rs_gps_sliced {
    ($name:ident, $n:expr) => {
        #[kani::proof]
        #[kani::unwind(6)]
        fn $name() {
            const N: usize = $n;
            let now = any_time();
            let resend = any_time();
            let id = any_id();
            let len: usize = kani::any();
            kani::assume(len > (N - 1) * SLICE_SIZE && len <= N * SLICE_SIZE);
            let acked: [bool; N] = kani::any();
            let mut n_acked = 0;
            let mut lasts: [Option<Duration>; N] = [None; N];
            let mut i = 0;
            while i < N {
                if acked[i] {
                    n_acked += 1;
                }
                lasts[i] = opt_time(now);
                i += 1;
            }
            kani::assume(n_acked < N);
            let start: usize = kani::any();
            kani::assume(start <= N);
            let channel_id: u8 = kani::any();
            let mut ch = SendChannelReliable::new(channel_id, resend, MEMMAX);
            ch.next_reliable_message_id = id + 1;
            ch.unacked_messages.slots[0] = Some((
                id,
                UnackedMessage::Sliced {
                    message: vbytes(len, 5),
                    num_slices: N,
                    num_acked_slices: n_acked,
                    next_slice_to_send: start,
                    acked: acked.to_vec(),
                    last_sent: lasts.to_vec(),
                },
            ));
            ch.unacked_messages.len = 1;
            ch.memory_usage_bytes = len;
            let seq0 = any_id();
            kani::assume(seq0 + 4 < IDMAX);
            let mut seq = seq0;
            let avail0: u64 = kani::any();
            let mut avail = avail0;
            let packets = ch.get_packets_to_send(&mut seq, &mut avail, now);

            // reference: slices are visited round-robin from `start`; a slice needs 1200 bytes of budget
            let mut emit = [false; N];
            let mut a = avail0;
            let mut n_emit = 0usize;
            let mut stopped = false;
            let mut k = 0;
            while k < N {
                let i = (start + k) % N;
                if !stopped {
                    if a < SLICE_SIZE as u64 {
                        stopped = true;
                    } else if !acked[i] && due(lasts[i], now, resend) {
                        let l = if i == N - 1 { len - (N - 1) * SLICE_SIZE } else { SLICE_SIZE };
                        emit[i] = true;
                        a -= l as u64;
                        n_emit += 1;
                    }
                }
                k += 1;
            }
            assert!(avail == a, "budget: bytes deducted != payload bytes emitted");
            assert!(seq == seq0 + packets.len() as u64);
            assert!(packets.len() == n_emit, "one packet per emitted slice");
            match ch.unacked_messages.get(&id) {
                Some(UnackedMessage::Sliced { message, num_slices, num_acked_slices, acked: acked2, last_sent, .. }) => {
                    assert!(is_window(message, 5, 0, len) && *num_slices == N && *num_acked_slices == n_acked);
                    let mut i = 0;
                    while i < N {
                        assert!(acked2[i] == acked[i], "ack flags changed by sending");
                        if emit[i] {
                            assert!(!acked[i], "acknowledged slice transmitted again");
                            assert!(last_sent[i] == Some(now), "emitted slice without timer refresh");
                        } else {
                            assert!(last_sent[i] == lasts[i], "timer changed for a slice that was not sent");
                        }
                        i += 1;
                    }
                }
                _ => assert!(false, "message lost"),
            }
            kani::cover!(n_emit == N, "all slices emitted");
            kani::cover!(n_emit == 0, "nothing emitted");
            kani::cover!(stopped && n_emit > 0, "budget ran out midway");
            std::mem::forget(packets);
            std::mem::forget(ch);
        }
    };
}
rs_gps_sliced!(rs_gps_sliced_n2, 2);
rs_gps_sliced!(rs_gps_sliced_n3, 3);

// ---- slicing plan as it appears on the wire (C03, C13): fresh sliced message, nothing acked, timers
// None, budget unlimited (all concrete => the pushes are unconditional); id, length, sequence symbolic
macro_rules! rs_pack_sliced {
    ($name:ident, $n:expr) => {
        #[kani::proof]
        #[kani::unwind(6)]
        fn $name() {
            const N: usize = $n;
            let now = any_time();
            let id = any_id();
            let len: usize = kani::any();
            kani::assume(len > (N - 1) * SLICE_SIZE && len <= N * SLICE_SIZE);
            let channel_id: u8 = kani::any();
            let mut ch = SendChannelReliable::new(channel_id, any_time(), MEMMAX);
            ch.next_reliable_message_id = id + 1;
            ch.unacked_messages.slots[0] = Some((
                id,
                UnackedMessage::Sliced {
                    message: vbytes(len, 5),
                    num_slices: N,
                    num_acked_slices: 0,
                    next_slice_to_send: 0,
                    acked: vec![false; N],
                    last_sent: vec![None; N],
                },
            ));
            ch.unacked_messages.len = 1;
            ch.memory_usage_bytes = len;
            let seq0 = any_id();
            kani::assume(seq0 + 4 < IDMAX);
            let mut seq = seq0;
            let mut avail = u64::MAX;
            let packets = ch.get_packets_to_send(&mut seq, &mut avail, now);
            let emit = [true; N];
            assert!(packets.len() == N, "one packet per slice");
            assert!(avail == u64::MAX - len as u64, "payload bytes must add up to the message length");
            // every packet is a slice of this message: the right window of the right bytes (concrete indices)
            let mut seen_idx = [false; N];
            let mut pi = 0;
            while pi < N {
                if pi < packets.len() {
                    match &packets[pi] {
                        Packet::ReliableSlice { sequence, channel_id: c, slice } => {
                            assert!(*sequence == seq0 + pi as u64 && *c == channel_id);
                            assert!(slice.message_id == id && slice.num_slices == N && slice.slice_index < N);
                            let i = slice.slice_index;
                            assert!(emit[i], "slice sent although acked / not due / over budget");
                            let l = if i == N - 1 { len - (N - 1) * SLICE_SIZE } else { SLICE_SIZE };
                            assert!(is_window(&slice.payload, 5, i * SLICE_SIZE, l), "slice payload is not bytes [1200*i, ..) of the message");
                            assert!(l >= 1 && l <= SLICE_SIZE);
                            // C13: 1 + seq + channel + id + index + count + len + payload
                            assert!(1 + 8 + 1 + 8 + 8 + 8 + 2 + l <= 1300);
                            assert!(!seen_idx[i], "slice emitted twice in one tick");
                            seen_idx[i] = true;
                        }
                        _ => assert!(false, "unexpected packet kind"),
                    }
                }
                pi += 1;
            }

            let mut i = 0;
            while i < N {
                assert!(seen_idx[i], "slice missing from the tick's packets");
                i += 1;
            }
            std::mem::forget(packets);
            std::mem::forget(ch);
        }
    };
}
rs_pack_sliced!(rs_pack_sliced_n2, 2);
rs_pack_sliced!(rs_pack_sliced_n3, 3);

// ---- acknowledgements (C08 release only through an ack, C09 bytes returned once, C15 never again) ----
#[kani::proof]
#[kani::unwind(6)]
fn rs_ack_small() {
    let now = any_time();
    let id0 = any_id();
    let id1 = any_id();
    kani::assume(id0 < id1 && id1 + 1 < IDMAX);
    let l0: usize = kani::any();
    let l1: usize = kani::any();
    kani::assume(l0 <= SLICE_SIZE && l1 <= SLICE_SIZE);
    let mut ch = SendChannelReliable::new(kani::any(), any_time(), MEMMAX);
    ch.next_reliable_message_id = id1 + 1;
    ch.unacked_messages.slots[0] = Some((id0, UnackedMessage::Small { message: vbytes(l0, 100), last_sent: opt_time(now) }));
    ch.unacked_messages.slots[1] = Some((id1, UnackedMessage::Small { message: vbytes(l1, 101), last_sent: opt_time(now) }));
    ch.unacked_messages.len = 2;
    ch.memory_usage_bytes = l0 + l1;
    let a = any_id();
    ch.process_message_ack(a);
    if a == id0 {
        assert!(!ch.unacked_messages.contains_key(&id0) && ch.unacked_messages.contains_key(&id1));
        assert!(ch.memory_usage_bytes == l1, "bytes of the acknowledged message not returned exactly once");
    } else if a == id1 {
        assert!(ch.unacked_messages.contains_key(&id0) && !ch.unacked_messages.contains_key(&id1));
        assert!(ch.memory_usage_bytes == l0);
    } else {
        assert!(ch.unacked_messages.len() == 2 && ch.memory_usage_bytes == l0 + l1, "ack for an unknown id released something");
    }
    assert!(ch.memory_usage_bytes == send_sum(&ch));
    // a second, duplicate ack changes nothing
    let m = ch.memory_usage_bytes;
    let n = ch.unacked_messages.len();
    ch.process_message_ack(a);
    assert!(ch.memory_usage_bytes == m && ch.unacked_messages.len() == n, "duplicate ack released again");
    // (an acknowledged message is never transmitted again: get_packets_to_send only visits entries of
    // unacked_messages - rs_gps_* - and the entry is gone)
    kani::cover!(a == id0, "first acked");
    std::mem::forget(ch);
}

macro_rules! rs_ack_slice {
    ($name:ident, $n:expr) => {
        #[kani::proof]
        #[kani::unwind(6)]
        fn $name() {
            const N: usize = $n;
            let id = any_id();
            let len: usize = kani::any();
            kani::assume(len > (N - 1) * SLICE_SIZE && len <= N * SLICE_SIZE);
            let acked: [bool; N] = kani::any();
            let mut n_acked = 0;
            let mut i = 0;
            while i < N {
                if acked[i] {
                    n_acked += 1;
                }
                i += 1;
            }
            kani::assume(n_acked < N);
            let mut ch = SendChannelReliable::new(kani::any(), any_time(), MEMMAX);
            ch.next_reliable_message_id = id + 1;
            ch.unacked_messages.slots[0] = Some((
                id,
                UnackedMessage::Sliced {
                    message: vbytes(len, 5),
                    num_slices: N,
                    num_acked_slices: n_acked,
                    next_slice_to_send: 0,
                    acked: acked.to_vec(),
                    last_sent: vec![None; N],
                },
            ));
            ch.unacked_messages.len = 1;
            ch.memory_usage_bytes = len;
            let aid = any_id();
            let ai: usize = kani::any();
            // Inv_SP: sent_packets only references slice indexes that exist (established by sp_step)
            kani::assume(ai < N);
            ch.process_slice_message_ack(aid, ai);
            let all_now = aid == id && n_acked + (if acked[ai] { 0 } else { 1 }) == N;
            if all_now {
                assert!(ch.unacked_messages.is_empty() && ch.memory_usage_bytes == 0, "fully acknowledged message not released");
                let mut j = 0;
                while j < N {
                    assert!(acked[j] || j == ai, "released although a slice was never acknowledged");
                    j += 1;
                }
            } else {
                assert!(ch.memory_usage_bytes == len, "released early");
                match ch.unacked_messages.get(&id) {
                    Some(UnackedMessage::Sliced { num_acked_slices, acked: a2, .. }) => {
                        let mut j = 0;
                        let mut cnt = 0;
                        while j < N {
                            assert!(a2[j] == (acked[j] || (aid == id && j == ai)), "wrong slice marked");
                            if a2[j] {
                                cnt += 1;
                            }
                            j += 1;
                        }
                        assert!(*num_acked_slices == cnt && cnt < N);
                    }
                    _ => assert!(false, "message lost"),
                }
            }
            kani::cover!(all_now, "last slice acked");
            kani::cover!(aid == id && acked[ai], "duplicate slice ack");
            std::mem::forget(ch);
        }
    };
}
rs_ack_slice!(rs_ack_slice_n2, 2);
rs_ack_slice!(rs_ack_slice_n3, 3);

#[kani::proof]
#[kani::unwind(6)]
fn rs_init() {
    let ch = SendChannelReliable::new(kani::any(), any_time(), kani::any());
    assert!(ch.memory_usage_bytes == 0 && ch.next_reliable_message_id == 0 && ch.unacked_messages.is_empty());
    let mut seq = 5u64;
    let mut avail = 100u64;
    let mut ch = ch;
    let p = ch.get_packets_to_send(&mut seq, &mut avail, any_time());
    assert!(p.is_empty() && seq == 5 && avail == 100);
    std::mem::forget(p);
    std::mem::forget(ch);
}

/// vacuity witness for the send family (must FAIL)
#[kani::proof]
#[kani::unwind(6)]
fn rs_witness() {
    let mut ch = SendChannelReliable::new(1, Duration::from_millis(100), 5000);
    let r = ch.send_message(vbytes(10, 1));
    std::mem::forget(r);
    let mut seq = 0u64;
    let mut avail = 100u64;
    let p = ch.get_packets_to_send(&mut seq, &mut avail, Duration::ZERO);
    if p.len() == 1 {
        assert!(false, "witness");
    }
    std::mem::forget(p);
    std::mem::forget(ch);
}

pub(crate) fn recv_mem(ch: &ReceiveChannelReliable) -> usize {
    ch.memory_usage_bytes
}

pub(crate) fn send_mem(ch: &SendChannelReliable) -> usize {
    ch.memory_usage_bytes
}
pub(crate) fn set_send_mem(ch: &mut SendChannelReliable, mem: usize, next_id: u64) {
    ch.memory_usage_bytes = mem;
    ch.next_reliable_message_id = next_id;
}
pub(crate) fn put_small(ch: &mut SendChannelReliable, slot: usize, id: u64, len: usize, blob: u32, last_sent: Option<Duration>) {
    ch.unacked_messages.slots[slot] = Some((id, UnackedMessage::Small { message: vbytes(len, blob), last_sent }));
    ch.unacked_messages.len = slot + 1;
}
pub(crate) fn put_sliced2(ch: &mut SendChannelReliable, id: u64, len: usize, acked0: bool, now: Duration) {
    ch.unacked_messages.slots[0] = Some((
        id,
        UnackedMessage::Sliced {
            message: vbytes(len, 100),
            num_slices: 2,
            num_acked_slices: if acked0 { 1 } else { 0 },
            next_slice_to_send: 0,
            acked: vec![acked0, false],
            last_sent: vec![Some(now), Some(now)],
        },
    ));
    ch.unacked_messages.len = 1;
}
pub(crate) fn has_msg(ch: &SendChannelReliable, id: u64) -> bool {
    ch.unacked_messages.contains_key(&id)
}
