// Harnesses for renet/src/channel/slice_constructor.rs  (C03, C06)
use super::*;

/// pre-state builder shared with the channel harnesses: a constructor for N slices in which
/// exactly the slices flagged in `got` were already received; if the last slice was received its
/// length was `last_len` (1..=1200).
pub(crate) fn mk_constructor<const N: usize>(id: u64, got: [bool; N], last_len: usize) -> SliceConstructor {
    let mut c = SliceConstructor::new(id, N);
    let mut k = 0;
    let mut i = 0;
    while i < N {
        if got[i] {
            c.received[i] = true;
            k += 1;
        }
        i += 1;
    }
    c.num_received_slices = k;
    if N > 0 && got[N - 1] {
        c.sliced_data.truncate((N - 1) * SLICE_SIZE + last_len);
    }
    c
}
pub(crate) fn sc_received(c: &SliceConstructor, i: usize) -> bool {
    c.received[i]
}
pub(crate) fn sc_num_received(c: &SliceConstructor) -> usize {
    c.num_received_slices
}
pub(crate) fn sc_data_len(c: &SliceConstructor) -> usize {
    c.sliced_data.len()
}
pub(crate) fn sc_received_len(c: &SliceConstructor) -> usize {
    c.received.len()
}
pub(crate) fn sc_id(c: &SliceConstructor) -> u64 {
    c.message_id
}
/// representation invariant of a live (incomplete) constructor
pub(crate) fn sc_inv<const N: usize>(c: &SliceConstructor) -> bool {
    if c.num_slices != N || c.received.len() != N {
        return false;
    }
    let mut k = 0;
    let mut i = 0;
    while i < N {
        if c.received[i] {
            k += 1;
        }
        i += 1;
    }
    k == c.num_received_slices && k < N
}

/// index of the slice holding byte offset p (division-free: dividing a symbolic value by a constant stalls the bit-blaster)
fn slice_of(p: usize) -> usize {
    if p < SLICE_SIZE {
        0
    } else if p < 2 * SLICE_SIZE {
        1
    } else {
        2
    }
}

static PAYLOAD: [u8; 1201] = [0xA5; 1201];

// ---- C06: hostile slices never panic ------------------------------------------------------------
// instance = (number of slices of the existing constructor, payload length class); the slice index is
// ARBITRARY (any usize), the received flags are arbitrary.
macro_rules! sc_hostile {
    ($name:ident, $n:expr, $len:expr) => {
        #[kani::proof]
        #[kani::unwind(6)]
        fn $name() {
            let got: [bool; $n] = kani::any();
            let last_len: usize = kani::any();
            kani::assume(last_len >= 1 && last_len <= SLICE_SIZE);
            let mut c = mk_constructor::<$n>(kani::any(), got, last_len);
            kani::assume(sc_inv::<$n>(&c));
            let idx: usize = kani::any();
            let r = c.process_slice(idx, &PAYLOAD[..$len]);
            match &r {
                Ok(Some(m)) => {
                    assert!(idx < $n, "completed by an out-of-range slice");
                    assert!(m.len() >= ($n - 1) * SLICE_SIZE && m.len() <= $n * SLICE_SIZE);
                }
                Ok(None) => {
                    assert!(idx < $n, "out-of-range slice accepted");
                    assert!(sc_inv::<$n>(&c), "constructor invariant broken");
                }
                Err(_) => {}
            }
            kani::cover!(r.is_err(), "rejected");
            kani::cover!(true, "returned");
            std::mem::forget(r);
            std::mem::forget(c);
        }
    };
}
sc_hostile!(sc_hostile_n1_l1, 1, 1);
sc_hostile!(sc_hostile_n2_l1, 2, 1);
sc_hostile!(sc_hostile_n2_l1200, 2, 1200);
sc_hostile!(sc_hostile_n2_l1201, 2, 1201);
sc_hostile!(sc_hostile_n3_l1199, 3, 1199);
sc_hostile!(sc_hostile_n3_l1200, 3, 1200);
sc_hostile!(sc_hostile_n2_l0, 2, 0);

#[kani::proof]
#[kani::unwind(6)]
fn sc_witness() {
    let got: [bool; 2] = kani::any();
    let mut c = mk_constructor::<2>(7, got, 5);
    kani::assume(sc_inv::<2>(&c));
    let idx: usize = kani::any();
    kani::assume(idx < 2);
    let r = c.process_slice(idx, &PAYLOAD[..1200]);
    if let Ok(Some(_)) = &r {
        assert!(false, "witness");
    }
    std::mem::forget(r);
    std::mem::forget(c);
}

// ---- C03: reassembly integrity --------------------------------------------------------------------
// message c_w of CONCRETE length L with N = ceil(L/1200) slices, content symbolic; the constructor is in an
// arbitrary state consistent with c_w at the witness offset p (every byte position, by witness
// quantification); slice I (concrete per instance) = the I-th window of c_w arrives.
macro_rules! sc_step {
    ($name:ident, $l:expr, $n:expr, $i:expr, $lastgot:expr) => {
        #[kani::proof]
        #[kani::unwind(6)]
        fn $name() {
            const L: usize = $l;
            const N: usize = $n;
            const I: usize = $i;
            let cw: [u8; L] = kani::any();
            let p: usize = kani::any();
            kani::assume(p < L);
            let mut got: [bool; N] = kani::any();
            // whether the (possibly short) last slice is already in is fixed per instance: it decides
            // the length of the reassembly buffer (discrete structure stays concrete)
            got[N - 1] = $lastgot;
            let mut c = mk_constructor::<N>(kani::any(), got, L - (N - 1) * SLICE_SIZE);
            kani::assume(sc_inv::<N>(&c));
            // consistency at the witness offset: a received slice holds c_w's bytes
            if got[slice_of(p)] {
                c.sliced_data[p] = cw[p];
            }
            let start = I * SLICE_SIZE;
            let end = if I == N - 1 { L } else { (I + 1) * SLICE_SIZE };
            let was_received = got[I];
            let mut had = 0;
            let mut j = 0;
            while j < N {
                if got[j] {
                    had += 1;
                }
                j += 1;
            }
            let r = c.process_slice(I, &cw[start..end]);
            match &r {
                Ok(Some(m)) => {
                    // complete: every slice is now received => every byte is c_w's, length exact
                    assert!(m.len() == L, "reassembled length differs from the submitted message");
                    if got[slice_of(p)] || slice_of(p) == I {
                        assert!(m[p] == cw[p], "reassembled byte differs from the submitted message");
                    }
                    let mut j = 0;
                    while j < N {
                        assert!(got[j] || j == I, "completed although a slice is missing");
                        j += 1;
                    }

                }
                Ok(None) => {
                    assert!(sc_inv::<N>(&c), "constructor invariant broken");
                    assert!(sc_received(&c, I));
                    if got[slice_of(p)] || slice_of(p) == I {
                        assert!(c.sliced_data[p] == cw[p], "buffered byte differs from the submitted message");
                    }
                    assert!(sc_num_received(&c) == had + if was_received { 0 } else { 1 });

                }
                Err(_) => assert!(false, "genuine slice rejected"),
            }
            kani::cover!(true, "returned");
            std::mem::forget(r);
            std::mem::forget(c);
        }
    };
}
sc_step!(sc_step_1201_0, 1201, 2, 0, false);
sc_step!(sc_step_1201_0d, 1201, 2, 0, true);
sc_step!(sc_step_1201_1, 1201, 2, 1, false);
sc_step!(sc_step_1201_1d, 1201, 2, 1, true);
sc_step!(sc_step_2400_0, 2400, 2, 0, false);
sc_step!(sc_step_2400_0d, 2400, 2, 0, true);
sc_step!(sc_step_2400_1, 2400, 2, 1, false);
sc_step!(sc_step_2399_1, 2399, 2, 1, false);
sc_step!(sc_step_2401_2, 2401, 3, 2, false);
sc_step!(sc_step_3600_1, 3600, 3, 1, false);
sc_step!(sc_step_3600_1d, 3600, 3, 1, true);
sc_step!(sc_step_3600_2, 3600, 3, 2, false);

/// constructor init: nothing received, buffers sized num_slices * 1200
#[kani::proof]
#[kani::unwind(6)]
fn sc_init() {
    let c = SliceConstructor::new(kani::any(), 3);
    assert!(sc_inv::<3>(&c) && sc_num_received(&c) == 0 && sc_data_len(&c) == 3 * SLICE_SIZE);
    std::mem::forget(c);
}
