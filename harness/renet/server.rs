// Harnesses for renet/src/server.rs  (C11, C12)
use super::*;
use crate::error::ChannelError;
use crate::packet::SerializationError;
use crate::remote_connection::verif_kani::{bare_client, client_obs, set_status, two_channel_client};
use crate::verif_models::vbytes;

fn any_cid() -> ClientId {
    kani::any()
}

fn any_reason() -> DisconnectReason {
    match kani::any::<u8>() % 6 {
        0 => DisconnectReason::Transport,
        1 => DisconnectReason::DisconnectedByClient,
        2 => DisconnectReason::DisconnectedByServer,
        3 => DisconnectReason::PacketDeserialization(SerializationError::InvalidPacketType),
        4 => DisconnectReason::ReceivedInvalidChannelId(kani::any()),
        _ => DisconnectReason::ReceiveChannelError { channel_id: kani::any(), error: ChannelError::InvalidSliceMessage },
    }
}

/// server whose connection config has no channels (add_connection then builds a bare client cheaply)
fn bare_server() -> RenetServer {
    RenetServer::new(ConnectionConfig {
        available_bytes_per_tick: 60_000,
        server_channels_config: Vec::new(),
        client_channels_config: Vec::new(),
    })
}

// ---- C12: event alternation -----------------------------------------------------------------------
// ghost: live(w) <=> w in connections <=> the last event for w was ClientConnected.  Each public call
// pushes an event exactly when membership of w changes, of the right kind, with the stored reason.
macro_rules! ev_step {
    ($name:ident, $n:expr, $op:expr, $same:expr) => {
        #[kani::proof]
        #[kani::unwind(8)]
        fn $name() {
            let mut s = bare_server();
            let mut ids = [0u64; $n];
            let mut reasons: [Option<DisconnectReason>; $n] = [None; $n];
            let mut i = 0;
            while i < $n {
                ids[i] = any_cid();
                if i > 0 {
                    kani::assume(ids[i - 1] < ids[i]);
                }
                let mut c = bare_client();
                if kani::any() {
                    let r = any_reason();
                    set_status(&mut c, Some(r));
                    reasons[i] = Some(r);
                }
                s.connections.slots[i] = Some((ids[i], c));
                s.connections.len = i + 1;
                i += 1;
            }
            let w = if $same { ids.first().copied().unwrap_or(0) } else { any_cid() };
            let mut w_idx: Option<usize> = None;
            let mut i = 0;
            while i < $n {
                if ids[i] == w {
                    w_idx = Some(i);
                }
                i += 1;
            }
            let live_before = w_idx.is_some();
            let x = if $same { w } else { any_cid() };
            let op: u8 = $op;
            let mut local = bare_client();
            let local_was_disconnected: bool = kani::any();
            if local_was_disconnected {
                set_status(&mut local, Some(DisconnectReason::Transport));
            }
            match op {
                0 => s.add_connection(x),
                1 => s.remove_connection(x),
                2 => s.disconnect(x),
                3 => s.disconnect_all(),
                4 => s.disconnect_local_client(x, &mut local),
                _ => {
                    let c = s.new_local_client(x);
                    std::mem::forget(c);
                }
            }
            let live_after = s.connections.contains_key(&w);
            let n_events = s.events.len();
            assert!(n_events <= 1, "one call reported more than one event");
            if live_before != live_after {
                assert!(x == w, "membership of another client changed");
                assert!(n_events == 1, "connection set changed without an event");
                match &s.events.slots[0] {
                    Some(ServerEvent::ClientConnected { client_id }) => {
                        assert!(!live_before && *client_id == w, "connect event for a client that was already connected / wrong id");
                    }
                    Some(ServerEvent::ClientDisconnected { client_id, reason }) => {
                        assert!(live_before && *client_id == w, "disconnect event without a preceding connect / wrong id");
                        let stored = reasons[w_idx.unwrap()];
                        match stored {
                            Some(r) => assert!(*reason == r, "removal must report the reason the connection was first disconnected with"),
                            None => assert!(
                                *reason == DisconnectReason::Transport || (op == 4 && *reason == DisconnectReason::DisconnectedByClient),
                                "healthy connection removed: reason must be Transport (DisconnectedByClient for a local client's own disconnect)"
                            ),
                        }
                    }
                    None => assert!(false),
                }
            } else if x == w || n_events == 1 {
                // an event without a membership change of its subject is a duplicate connect / disconnect
                if n_events == 1 {
                    let subject = match &s.events.slots[0] {
                        Some(ServerEvent::ClientConnected { client_id }) => *client_id,
                        Some(ServerEvent::ClientDisconnected { client_id, .. }) => *client_id,
                        None => 0,
                    };
                    assert!(subject != w, "event reported although the client's membership did not change");
                }
            }
            // statuses: disconnect / disconnect_all keep the first reason
            if let Some(i) = w_idx {
                if live_after {
                    let now = s.disconnect_reason(w);
                    match reasons[i] {
                        Some(r) => assert!(now == Some(r), "first disconnect reason replaced"),
                        None => {
                            if (op == 2 && x == w) || op == 3 {
                                assert!(now == Some(DisconnectReason::DisconnectedByServer));
                            } else {
                                assert!(now.is_none(), "healthy connection disconnected by a call that does not concern it");
                            }
                        }
                    }
                }
            }
            kani::cover!(true, "returned");
            std::mem::forget(local);
            std::mem::forget(s);
        }
    };
}
ev_step!(ev_add_n0, 0, 0, false);
// adding an id that is already present (healthy or disconnected): no event, nothing replaced
ev_step!(ev_add_same_n1, 1, 0, true);
ev_step!(ev_disconnect_n1, 1, 2, false);
ev_step!(ev_disconnect_all_n2, 2, 3, false);
// (add of a fresh id next to an existing one, remove_connection, disconnect_local_client and new_local_client move /
// drop a whole RenetClient through the model map: > 12 GB, not claimed)

// ---- C11: isolation between clients; broadcast targets ----------------------------------------------
fn two_client_server() -> (RenetServer, ClientId, ClientId) {
    let mut s = bare_server();
    let a = any_cid();
    let b = any_cid();
    kani::assume(a < b);
    s.connections.slots[0] = Some((a, two_channel_client(kani::any())));
    s.connections.slots[1] = Some((b, two_channel_client(kani::any())));
    s.connections.len = 2;
    (s, a, b)
}

macro_rules! srv_frame {
    ($name:ident, $op:expr) => {
        /// an operation addressed to client `a` (or to an unknown id) leaves every observable of client `b` unchanged
        #[kani::proof]
        #[kani::unwind(8)]
        fn $name() {
            let (mut s, a, b) = two_client_server();
            let target = if kani::any() { a } else { any_cid() };
            kani::assume(target != b);
            let before_b = client_obs(&s.connections.slots[1].as_ref().unwrap().1);
            let before_a = client_obs(&s.connections.slots[0].as_ref().unwrap().1);
            let op: u8 = $op;
            match op {
                0 => s.send_message(target, 0u8, vbytes(5, 1)),
                1 => s.send_message(target, 1u8, vbytes(5, 1)),
                2 => {
                    let m = s.receive_message(target, kani::any::<u8>() % 2);
                    std::mem::forget(m);
                }
                3 => s.disconnect(target),
                4 => {
                    let buf: [u8; 6] = kani::any();
                    let n: usize = kani::any();
                    kani::assume(n <= 6);
                    let r = s.process_packet_from(&buf[..n], target);
                    assert!(r.is_ok() == (target == a));
                }
                _ => {
                    let r = s.get_packets_to_send(target);
                    assert!(r.is_ok() == (target == a));
                    std::mem::forget(r);
                }
            }
            assert!(s.connections.len() == 2);
            assert!(client_obs(&s.connections.slots[1].as_ref().unwrap().1) == before_b, "operation on one client changed another client's state");
            if target != a {
                assert!(client_obs(&s.connections.slots[0].as_ref().unwrap().1) == before_a, "operation on an unknown id changed a client");
            }
            std::mem::forget(s);
        }
    };
}
srv_frame!(srv_frame_send_rel, 0);
srv_frame!(srv_frame_send_unrel, 1);
srv_frame!(srv_frame_recv, 2);
srv_frame!(srv_frame_disconnect, 3);
srv_frame!(srv_frame_packet, 4);
srv_frame!(srv_frame_gps, 5);

macro_rules! bcast {
    ($name:ident, $ch:expr, $except:expr) => {
        /// broadcast: every connection that is not disconnected (minus the excluded id) gets exactly one more
        /// queued message of the right length; disconnected ones and the excluded one are untouched
        #[kani::proof]
        #[kani::unwind(8)]
        fn $name() {
            let (mut s, a, b) = two_client_server();
            let a_dead: bool = kani::any();
            if a_dead {
                set_status(&mut s.connections.slots[0].as_mut().unwrap().1, Some(DisconnectReason::Transport));
            }
            let before_a = client_obs(&s.connections.slots[0].as_ref().unwrap().1);
            let before_b = client_obs(&s.connections.slots[1].as_ref().unwrap().1);
            let len: usize = kani::any();
            kani::assume(len <= 1000);
            let ex = if $except { if kani::any() { a } else { any_cid() } } else { 0 };
            if $except {
                s.broadcast_message_except(ex, $ch as u8, vbytes(len, 3));
            } else {
                s.broadcast_message($ch as u8, vbytes(len, 3));
            }
            let after_a = client_obs(&s.connections.slots[0].as_ref().unwrap().1);
            let after_b = client_obs(&s.connections.slots[1].as_ref().unwrap().1);
            let mut want_a = before_a;
            let mut want_b = before_b;
            // obs = (send reliable available, send unreliable available, recv reliable mem, pending acks, status code)
            if !a_dead && !($except && ex == a) {
                if $ch == 0 {
                    want_a.0 -= len;
                } else {
                    want_a.1 -= len;
                }
            }
            if !($except && ex == b) {
                if $ch == 0 {
                    want_b.0 -= len;
                } else {
                    want_b.1 -= len;
                }
            }
            assert!(after_a == want_a, "broadcast did not reach exactly its targets (first client)");
            assert!(after_b == want_b, "broadcast did not reach exactly its targets (second client)");
            kani::cover!(a_dead, "one client disconnected");
            std::mem::forget(s);
        }
    };
}
bcast!(bcast_rel, 0, false);
bcast!(bcast_unrel, 1, false);
bcast!(bcast_except_rel, 0, true);

/// vacuity witness (must FAIL)
#[kani::proof]
#[kani::unwind(8)]
fn srv_witness() {
    let mut s = bare_server();
    s.add_connection(any_cid());
    if s.events.len() == 1 {
        assert!(false, "witness");
    }
    std::mem::forget(s);
}
