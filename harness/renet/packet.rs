// Harnesses for renet/src/packet.rs  (C06, C13, C16)   Variant: VecBytes (faithful content)
use super::*;

const IDMAX: u64 = 1 << 62;

fn any_id() -> u64 {
    let x: u64 = kani::any();
    kani::assume(x < IDMAX);
    x
}

fn varint_len(v: u64) -> usize {
    if v <= 63 {
        1
    } else if v <= 16383 {
        2
    } else if v <= 1_073_741_823 {
        4
    } else {
        8
    }
}

fn bytes_n(n: usize) -> Bytes {
    // n concrete per call site; content symbolic
    let mut v = Vec::with_capacity(n);
    let mut i = 0;
    while i < n {
        v.push(kani::any::<u8>());
        i += 1;
    }
    Bytes::from(v)
}

fn roundtrip(p: &Packet, expect_len: usize) -> Packet {
    let mut buf = [0u8; 96];
    let n = {
        let mut w = octets::OctetsMut::with_slice(&mut buf);
        match p.to_bytes(&mut w) {
            Ok(n) => n,
            Err(_) => {
                assert!(false, "serialization failed although the buffer is large enough");
                0
            }
        }
    };
    assert!(n == expect_len, "serialized length differs from the wire-format formula");
    let mut r = octets::Octets::with_slice(&buf[..n]);
    match Packet::from_bytes(&mut r) {
        Ok(q) => {
            assert!(r.cap() == 0, "decoder did not consume the whole serialization");
            q
        }
        Err(_) => {
            assert!(false, "decoding the serialization of a buildable packet failed");
            unreachable!()
        }
    }
}

macro_rules! rt_small_rel {
    ($name:ident, $l0:expr, $l1:expr, $two:expr) => {
        #[kani::proof]
        #[kani::unwind(8)]
        fn $name() {
            let sequence = any_id();
            let channel_id: u8 = kani::any();
            let id0 = any_id();
            let id1 = any_id();
            let mut messages = Vec::new();
            messages.push((id0, bytes_n($l0)));
            let mut len = 1 + varint_len(sequence) + 1 + 2 + varint_len(id0) + 1 + $l0;
            if $two {
                messages.push((id1, bytes_n($l1)));
                len += varint_len(id1) + 1 + $l1;
            }
            let p = Packet::SmallReliable { sequence, channel_id, messages };
            let q = roundtrip(&p, len);
            assert!(p == q, "SmallReliable does not round-trip");
            kani::cover!(varint_len(sequence) == 8 && varint_len(id0) == 2, "8-byte sequence, 2-byte id");
            kani::cover!(sequence == 63 || sequence == 64, "varint boundary 63/64");
            std::mem::forget(p);
            std::mem::forget(q);
        }
    };
}
rt_small_rel!(rt_renet_small_rel_1, 2, 0, false);
rt_small_rel!(rt_renet_small_rel_2, 1, 2, true);
rt_small_rel!(rt_renet_small_rel_empty, 0, 0, true);

macro_rules! rt_small_unrel {
    ($name:ident, $l0:expr, $l1:expr, $two:expr) => {
        #[kani::proof]
        #[kani::unwind(8)]
        fn $name() {
            let sequence = any_id();
            let channel_id: u8 = kani::any();
            let mut messages = Vec::new();
            messages.push(bytes_n($l0));
            let mut len = 1 + varint_len(sequence) + 1 + 2 + 1 + $l0;
            if $two {
                messages.push(bytes_n($l1));
                len += 1 + $l1;
            }
            let p = Packet::SmallUnreliable { sequence, channel_id, messages };
            let q = roundtrip(&p, len);
            assert!(p == q, "SmallUnreliable does not round-trip");
            std::mem::forget(p);
            std::mem::forget(q);
        }
    };
}
rt_small_unrel!(rt_renet_small_unrel_1, 2, 0, false);
rt_small_unrel!(rt_renet_small_unrel_2, 0, 3, true);

macro_rules! rt_slice {
    ($name:ident, $rel:expr, $l:expr) => {
        #[kani::proof]
        #[kani::unwind(8)]
        fn $name() {
            let sequence = any_id();
            let channel_id: u8 = kani::any();
            let message_id = any_id();
            let slice_index: usize = kani::any();
            let num_slices: usize = kani::any();
            kani::assume((slice_index as u64) < IDMAX && num_slices >= 1 && num_slices <= 1_000_000);
            let slice = Slice { message_id, slice_index, num_slices, payload: bytes_n($l) };
            let len = 1 + varint_len(sequence) + 1 + varint_len(message_id) + varint_len(slice_index as u64) + varint_len(num_slices as u64) + 1 + $l;
            let p = if $rel {
                Packet::ReliableSlice { sequence, channel_id, slice }
            } else {
                Packet::UnreliableSlice { sequence, channel_id, slice }
            };
            let q = roundtrip(&p, len);
            assert!(p == q, "slice packet does not round-trip");
            kani::cover!(num_slices == 1_000_000, "largest slice count");
            std::mem::forget(p);
            std::mem::forget(q);
        }
    };
}
rt_slice!(rt_renet_slice_rel, true, 2);
rt_slice!(rt_renet_slice_unrel, false, 1);

macro_rules! rt_ack {
    ($name:ident, $n:expr) => {
        #[kani::proof]
        #[kani::unwind(8)]
        fn $name() {
            let sequence = any_id();
            let mut ack_ranges: Vec<Range<u64>> = Vec::new();
            let mut prev_end = 0u64;
            let mut len = 1 + varint_len(sequence);
            let mut starts = [0u64; $n];
            let mut ends = [0u64; $n];
            let mut i = 0;
            while i < $n {
                let s = any_id();
                let e = any_id();
                // sorted, non-empty, separated by at least one missing sequence (what add_pending_ack maintains)
                kani::assume(s < e && (i == 0 || s > prev_end));
                starts[i] = s;
                ends[i] = e;
                prev_end = e;
                ack_ranges.push(s..e);
                i += 1;
            }
            // wire: last.end-1, size of last, count of remaining, then (gap, size) per remaining range downwards
            len += varint_len(ends[$n - 1] - 1) + varint_len(ends[$n - 1] - 1 - starts[$n - 1]) + varint_len($n as u64 - 1);
            let mut i = $n - 1;
            while i > 0 {
                len += varint_len(starts[i] - ends[i - 1] - 1) + varint_len(ends[i - 1] - 1 - starts[i - 1]);
                i -= 1;
            }
            let p = Packet::Ack { sequence, ack_ranges };
            let q = roundtrip(&p, len);
            assert!(p == q, "Ack does not denote the same set of sequences after a round trip");

            kani::cover!(ends[0] == starts[0] + 1, "single-element range");
            std::mem::forget(p);
            std::mem::forget(q);
        }
    };
}
rt_ack!(rt_renet_ack_1, 1);
rt_ack!(rt_renet_ack_2, 2);
rt_ack!(rt_renet_ack_3, 3);

// ---- C06: the parser is total and establishes V -----------------------------------------------------
// every byte string of length <= NB whose first byte is the packet type T
macro_rules! parse_total {
    ($name:ident, $t:expr, $nb:expr) => {
        #[kani::proof]
        #[kani::unwind(14)]
        fn $name() {
            let mut buf: [u8; $nb] = kani::any();
            let n: usize = kani::any();
            kani::assume(n <= $nb);
            if $t < 5 {
                buf[0] = $t;
            }
            let mut r = octets::Octets::with_slice(&buf[..n]);
            let p = Packet::from_bytes(&mut r);
            if n > 0 && buf[0] >= 5 {
                assert!(p.is_err(), "unknown packet type accepted");
            }
            match &p {
                Ok(Packet::SmallReliable { sequence, messages, .. }) => {
                    assert!(*sequence < IDMAX && messages.len() <= $nb);
                }
                Ok(Packet::SmallUnreliable { sequence, messages, .. }) => {
                    assert!(*sequence < IDMAX && messages.len() <= $nb);
                }
                Ok(Packet::ReliableSlice { slice, .. }) => {
                    assert!(slice.num_slices >= 1 && slice.num_slices <= 1_000_000, "V: slice count");
                    assert!(slice.payload.len() >= 1 && slice.payload.len() <= SLICE_SIZE, "V: reliable slice payload size");
                }
                Ok(Packet::UnreliableSlice { slice, .. }) => {
                    assert!(slice.num_slices >= 1 && slice.num_slices <= 1_000_000, "V: slice count");
                }
                Ok(Packet::Ack { ack_ranges, .. }) => {
                    assert!(!ack_ranges.is_empty());
                    // V: ranges non-empty, ascending, separated (concrete indices; <= 3 ranges fit in NB bytes)
                    let k = ack_ranges.len();
                    assert!(k <= 4);
                    let mut i = 0;
                    while i < 4 {
                        if i < k {
                            assert!(ack_ranges[i].start < ack_ranges[i].end, "V: empty ack range");
                            if i + 1 < k {
                                assert!(ack_ranges[i].end < ack_ranges[i + 1].start, "V: ack ranges not ascending / adjacent");
                            }
                        }
                        i += 1;
                    }
                }
                Err(_) => {}
            }
            if $t >= 5 && n > 0 {
                assert!(p.is_err(), "unknown packet type accepted");
            }
            kani::cover!(p.is_ok(), "some input parses");
            kani::cover!(p.is_err(), "some input is rejected");
            std::mem::forget(p);
        }
    };
}
parse_total!(parse_total_8, 255, 8);
parse_total!(parse_total_12, 255, 12);

/// reverse round trip (C16): a byte string that decodes re-encodes to bytes that decode to the same value
macro_rules! rt_rev {
    ($name:ident, $t:expr) => {
        #[kani::proof]
        #[kani::unwind(14)]
        fn $name() {
            let mut buf: [u8; 8] = kani::any();
            buf[0] = $t;
            let n: usize = kani::any();
            kani::assume(n <= 8);
            let mut r = octets::Octets::with_slice(&buf[..n]);
            let p = Packet::from_bytes(&mut r);
            if let Ok(p1) = &p {
                let mut out = [0u8; 96];
                let m = {
                    let mut w = octets::OctetsMut::with_slice(&mut out);
                    match p1.to_bytes(&mut w) {
                        Ok(m) => m,
                        Err(_) => {
                            assert!(false, "a decoded packet cannot be re-encoded");
                            0
                        }
                    }
                };
                let mut r2 = octets::Octets::with_slice(&out[..m]);
                match Packet::from_bytes(&mut r2) {
                    Ok(p2) => {
                        assert!(*p1 == p2, "re-encoding changes the value");
                        std::mem::forget(p2);
                    }
                    Err(_) => assert!(false, "re-encoded packet does not decode"),
                }
            }
            kani::cover!(p.is_ok(), "some input parses");
            std::mem::forget(p);
        }
    };
}
rt_rev!(rt_renet_rev_t0, 0);
rt_rev!(rt_renet_rev_t2, 2);
rt_rev!(rt_renet_rev_t4, 4);

/// serializer refuses (BufferTooShort) instead of panicking when the buffer is too small (C13)
#[kani::proof]
#[kani::unwind(8)]
fn ser_short_buffer() {
    let sequence = any_id();
    let mut messages = Vec::new();
    messages.push((any_id(), bytes_n(3)));
    let p = Packet::SmallReliable { sequence, channel_id: kani::any(), messages };
    let mut buf = [0u8; 24];
    let n: usize = kani::any();
    kani::assume(n <= 24);
    let mut w = octets::OctetsMut::with_slice(&mut buf[..n]);
    let r = p.to_bytes(&mut w);
    if let Ok(k) = r {
        assert!(k <= n);
    }
    kani::cover!(r.is_err(), "too short");
    std::mem::forget(p);
}

/// vacuity witness (must FAIL).  Serializer only: anything that goes through the parser costs > 12 GB.
#[kani::proof]
#[kani::unwind(8)]
fn pk_witness() {
    let p = Packet::Ack { sequence: any_id(), ack_ranges: vec![3..5] };
    let mut out = [0u8; 64];
    let mut w = octets::OctetsMut::with_slice(&mut out);
    let r = p.to_bytes(&mut w);
    if r.is_ok() {
        assert!(false, "witness");
    }
    std::mem::forget(r);
    std::mem::forget(p);
}

// =====================================================================================================================
// CONTRACT function for the RenetClient-level lemmas (variant "contracts"): tools/stage.py re-points the call
// `Packet::from_bytes(..)` in remote_connection.rs at this function, which hands out the packet the harness prepared -
// ANY packet satisfying V, the validity predicate that parse_total_* establishes for every Ok value of the real parser
// (slice count 1..=10^6, reliable slice payload 1..=1200, ack ranges non-empty / ascending / separated) - or an error.
pub(crate) static mut NEXT_PACKET: Option<Result<Packet, SerializationError>> = None;

impl Packet {
    pub(crate) fn verif_from_bytes(_b: &mut octets::Octets) -> Result<Packet, SerializationError> {
        #[allow(static_mut_refs)]
        match unsafe { NEXT_PACKET.take() } {
            Some(r) => r,
            None => Err(SerializationError::BufferTooShort),
        }
    }
}
