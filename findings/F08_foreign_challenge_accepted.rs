//@finding F8  property C05/C10  fix b459716
//@append renetcode/src/server.rs
//@cmd cargo test -p renetcode --offline verif_demo_f08
// an attacker owning tokens for ids 1 and 2 answers the session of id 1 with the challenge issued for id 2:
// the server connected id 1 with the user data sealed in the OTHER token
#[cfg(test)]
mod verif_demo_f08 {
    use super::*;
    use crate::{client::NetcodeClient, token::ConnectToken, ClientAuthentication};
    const KEY: &[u8; NETCODE_KEY_BYTES] = b"an example very very secret key.";
    #[test]
    fn verif_demo_f08() {
        let mut server = NetcodeServer::new(ServerConfig {
            current_time: Duration::ZERO,
            max_clients: 16,
            protocol_id: 7,
            public_addresses: vec!["127.0.0.1:5000".parse().unwrap()],
            authentication: ServerAuthentication::Secure { private_key: *KEY },
        });
        let addrs = server.addresses();
        let ud1 = [1u8; NETCODE_USER_DATA_BYTES];
        let ud2 = [2u8; NETCODE_USER_DATA_BYTES];
        let t1 = ConnectToken::generate(Duration::ZERO, 7, 30, 1, 5, addrs.clone(), Some(&ud1), KEY).unwrap();
        let t2 = ConnectToken::generate(Duration::ZERO, 7, 30, 2, 5, addrs, Some(&ud2), KEY).unwrap();
        let (k1_c2s, k2_s2c) = (t1.client_to_server_key, t2.server_to_client_key);
        let a1: SocketAddr = "127.0.0.1:3001".parse().unwrap();
        let a2: SocketAddr = "127.0.0.1:3002".parse().unwrap();
        let mut c1 = NetcodeClient::new(Duration::ZERO, ClientAuthentication::Secure { connect_token: t1 }).unwrap();
        let mut c2 = NetcodeClient::new(Duration::ZERO, ClientAuthentication::Secure { connect_token: t2 }).unwrap();
        // both identities send their request; keep the challenge issued for id 2
        let (req1, _) = c1.update(Duration::ZERO).unwrap();
        let mut req1 = req1.to_vec();
        assert!(matches!(server.process_packet(a1, &mut req1), ServerResult::PacketToSend { .. }));
        let (req2, _) = c2.update(Duration::ZERO).unwrap();
        let mut req2 = req2.to_vec();
        let mut challenge2 = match server.process_packet(a2, &mut req2) {
            ServerResult::PacketToSend { payload, .. } => payload.to_vec(),
            _ => panic!("no challenge"),
        };
        let (_, ch) = Packet::decode(&mut challenge2, 7, Some(&k2_s2c), None).unwrap();
        let (token_sequence, token_data) = match ch {
            Packet::Challenge { token_sequence, token_data } => (token_sequence, token_data),
            _ => panic!(),
        };
        // response for session 1 (address a1, key of token 1) echoing the challenge issued for id 2
        let mut out = [0u8; NETCODE_MAX_PACKET_BYTES];
        let n = Packet::Response { token_sequence, token_data }.encode(&mut out, 7, Some((1, &k1_c2s))).unwrap();
        match server.process_packet(a1, &mut out[..n]) {
            ServerResult::ClientConnected { client_id, user_data, .. } => {
                panic!("connected id {} with user data byte {} from a challenge issued for another id", client_id, user_data[0]);
            }
            _ => {}
        }
        assert!(!server.is_client_connected(1));
    }
}
