//@finding F3  property C07  fix b6fd417
//@append renetcode/src/lib.rs
//@cmd cargo test -p renetcode --offline verif_demo_f03
// prefix byte announcing 9..15 sequence bytes panicked the receiver (slice of an 8-byte scratch buffer)
#[cfg(test)]
mod verif_demo_f03 {
    use crate::{ClientAuthentication, NetcodeClient};
    use std::time::Duration;
    #[test]
    fn verif_demo_f03() {
        let auth = ClientAuthentication::Unsecure { protocol_id: 1, client_id: 1, server_addr: "127.0.0.1:5000".parse().unwrap(), user_data: None };
        let mut c = NetcodeClient::new(Duration::ZERO, auth).unwrap();
        let mut d = [0u8; 40];
        d[0] = 0x94; // keep-alive, 9 sequence bytes
        assert!(c.process_packet(&mut d).is_none());
    }
}
