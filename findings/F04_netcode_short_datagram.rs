//@finding F4  property C07  fix 611449f
//@append renetcode/src/lib.rs
//@cmd cargo test -p renetcode --offline verif_demo_f04
// 18..24 byte datagram with an 8-byte sequence: fewer than 16 bytes left for the tag -> len - 16 underflowed
#[cfg(test)]
mod verif_demo_f04 {
    use crate::{ClientAuthentication, NetcodeClient};
    use std::time::Duration;
    #[test]
    fn verif_demo_f04() {
        let auth = ClientAuthentication::Unsecure { protocol_id: 1, client_id: 1, server_addr: "127.0.0.1:5000".parse().unwrap(), user_data: None };
        let mut c = NetcodeClient::new(Duration::ZERO, auth).unwrap();
        let mut d = [0u8; 18];
        d[0] = 0x84; // keep-alive, 8 sequence bytes
        d[1] = 1;
        assert!(c.process_packet(&mut d).is_none());
    }
}
