//@finding F14  property C12  fix 031169b
//@append renet/src/lib.rs
//@cmd cargo test -p renet --offline verif_demo_f14
#[cfg(test)]
mod verif_demo_f14 {
    use crate::{ConnectionConfig, DisconnectReason, RenetServer, ServerEvent};
    #[test]
    fn verif_demo_f14() {
        let mut server = RenetServer::new(ConnectionConfig::default());
        let mut client = server.new_local_client(7);
        server.disconnect(7); // first reason: DisconnectedByServer
        server.disconnect_local_client(7, &mut client);
        let mut last = None;
        while let Some(e) = server.get_event() {
            last = Some(e);
        }
        assert_eq!(last, Some(ServerEvent::ClientDisconnected { client_id: 7, reason: DisconnectReason::DisconnectedByServer }));
    }
}
