//@finding F10  property C09/C02  fix ea64db1
//@append renet/src/channel/reliable.rs
//@cmd cargo test -p renet --offline verif_demo_f10
// unordered channel: sliced message 1 assembled and consumed while message 0 is missing; a late duplicate
// slice of message 1 created a new constructor whose reservation was never returned
#[cfg(test)]
mod verif_demo_f10 {
    use super::*;
    #[test]
    fn verif_demo_f10() {
        let mut recv = ReceiveChannelReliable::new(10_000, false);
        let s = |i: usize| Slice { message_id: 1, slice_index: i, num_slices: 2, payload: vec![1u8; SLICE_SIZE].into() };
        recv.process_slice(s(0)).unwrap();
        recv.process_slice(s(1)).unwrap();
        assert!(recv.receive_message().is_some());
        assert_eq!(recv.memory_usage_bytes, 0);
        recv.process_slice(s(0)).unwrap(); // duplicate arriving late
        assert_eq!(recv.memory_usage_bytes, 0, "reservation for an already delivered message");
    }
}
