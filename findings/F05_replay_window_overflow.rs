//@finding F5  property C04/C07  fix 284c910
//@append renetcode/src/lib.rs
//@cmd cargo test -p renetcode --offline verif_demo_f05
// unauthenticated header sequence close to u64::MAX: sequence + 256 overflowed before authentication
#[cfg(test)]
mod verif_demo_f05 {
    use crate::{ClientAuthentication, NetcodeClient};
    use std::time::Duration;
    #[test]
    fn verif_demo_f05() {
        let auth = ClientAuthentication::Unsecure { protocol_id: 1, client_id: 1, server_addr: "127.0.0.1:5000".parse().unwrap(), user_data: None };
        let mut c = NetcodeClient::new(Duration::ZERO, auth).unwrap();
        let mut d = [0xFFu8; 40];
        d[0] = 0x84; // keep-alive, 8 sequence bytes, sequence = 2^64-1
        assert!(c.process_packet(&mut d).is_none());
    }
}
