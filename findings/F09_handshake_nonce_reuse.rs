//@finding F9  property C17  fix f967a3b
//@append renetcode/src/server.rs
//@cmd cargo test -p renetcode --offline verif_demo_f09
// the challenge (sealed with the server-wide sequence) and the session's first keep-alive (sealed with the
// session counter) were both sealed under the session's send key with nonce 0
#[cfg(test)]
mod verif_demo_f09 {
    use super::*;
    use crate::{client::NetcodeClient, token::ConnectToken, ClientAuthentication};
    const KEY: &[u8; NETCODE_KEY_BYTES] = b"an example very very secret key.";
    fn seq_of(d: &[u8]) -> u64 {
        let n = (d[0] >> 4) as usize;
        let mut s = [0u8; 8];
        s[..n].copy_from_slice(&d[1..1 + n]);
        u64::from_le_bytes(s)
    }
    #[test]
    fn verif_demo_f09() {
        let mut server = NetcodeServer::new(ServerConfig {
            current_time: Duration::ZERO,
            max_clients: 16,
            protocol_id: 7,
            public_addresses: vec!["127.0.0.1:5000".parse().unwrap()],
            authentication: ServerAuthentication::Secure { private_key: *KEY },
        });
        let t = ConnectToken::generate(Duration::ZERO, 7, 30, 1, 5, server.addresses(), None, KEY).unwrap();
        let a: SocketAddr = "127.0.0.1:3001".parse().unwrap();
        let mut c = NetcodeClient::new(Duration::ZERO, ClientAuthentication::Secure { connect_token: t }).unwrap();
        let (req, _) = c.update(Duration::ZERO).unwrap();
        let mut req = req.to_vec();
        let mut challenge = match server.process_packet(a, &mut req) {
            ServerResult::PacketToSend { payload, .. } => payload.to_vec(),
            _ => panic!(),
        };
        let challenge_nonce = seq_of(&challenge);
        c.process_packet(&mut challenge);
        let (resp, _) = c.update(Duration::from_millis(300)).unwrap();
        let mut resp = resp.to_vec();
        let keepalive = match server.process_packet(a, &mut resp) {
            ServerResult::ClientConnected { payload, .. } => payload.to_vec(),
            _ => panic!(),
        };
        // both datagrams are sealed under the same server-to-client key
        assert_ne!(challenge_nonce, seq_of(&keepalive), "two different datagrams sealed under one key with the same nonce");
    }
}
