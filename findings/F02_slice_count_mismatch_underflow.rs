//@finding F2  property C06/C09  fix 4415753
//@append renet/src/lib.rs
//@cmd cargo test -p renet --offline verif_demo_f02
// Second slice announces a larger num_slices than the first: on completion the receiver subtracted the
// announced (not the reserved) amount -> underflow panic (debug) / wrapped accounting (release).
#[cfg(test)]
mod verif_demo_f02 {
    use crate::{ConnectionConfig, RenetClient};
    fn slice(seq: u8, index: u8, num: &[u8]) -> Vec<u8> {
        let mut p = vec![2u8, seq, 2, 0, index];
        p.extend_from_slice(num);
        p.extend_from_slice(&[0x44, 0xB0]);
        p.extend(std::iter::repeat(7u8).take(1200));
        p
    }
    #[test]
    fn verif_demo_f02() {
        let mut c = RenetClient::new(ConnectionConfig::default());
        c.process_packet(&slice(0, 0, &[2])); // slice 0 of 2
        c.process_packet(&slice(1, 1, &[0x43, 0xE8])); // slice 1 "of 1000" completes the 2-slice constructor
        // must return normally; the message is 2400 bytes
        let m = c.receive_message(2u8);
        assert!(m.is_some() || c.is_disconnected());
    }
}
