//@finding F16  property C07/C18  fix 3d594da
//@append renetcode/src/server.rs
//@cmd cargo test -p renetcode --offline verif_demo_f16
// A connection-request datagram (packet type 0) travels in the clear and is never authenticated.  Sent from the
// address of an already CONNECTED client (anyone who can spoof that address can do it) it still refreshed the client's
// last_packet_received_time, so a dead client is kept "alive" forever by forged datagrams.
#[cfg(test)]
mod verif_demo_f16 {
    use super::*;
    use crate::{client::NetcodeClient, token::ConnectToken, ClientAuthentication};
    const KEY: &[u8; NETCODE_KEY_BYTES] = b"an example very very secret key.";
    #[test]
    fn verif_demo_f16() {
        let mut server = NetcodeServer::new(ServerConfig {
            current_time: Duration::ZERO,
            max_clients: 16,
            protocol_id: 7,
            public_addresses: vec!["127.0.0.1:5000".parse().unwrap()],
            authentication: ServerAuthentication::Secure { private_key: *KEY },
        });
        let token = ConnectToken::generate(Duration::ZERO, 7, 300, 1, 5, server.addresses(), None, KEY).unwrap();
        let addr: SocketAddr = "127.0.0.1:3001".parse().unwrap();
        let mut client = NetcodeClient::new(Duration::ZERO, ClientAuthentication::Secure { connect_token: token }).unwrap();
        let (req, _) = client.update(Duration::ZERO).unwrap();
        let mut req = req.to_vec();
        let mut challenge = match server.process_packet(addr, &mut req) {
            ServerResult::PacketToSend { payload, .. } => payload.to_vec(),
            _ => panic!("no challenge"),
        };
        assert!(client.process_packet(&mut challenge).is_none());
        let (resp, _) = client.update(Duration::from_millis(300)).unwrap();
        let mut resp = resp.to_vec();
        assert!(matches!(server.process_packet(addr, &mut resp), ServerResult::ClientConnected { .. }));
        // the client dies; for 20 s (timeout: 5 s) the only datagrams from its address are forged "connection requests"
        for _ in 0..20 {
            server.update(Duration::from_secs(1));
            let mut junk = vec![0u8; 1078];
            junk[0] = 0; // packet type 0, no key needed
            junk[1..14].copy_from_slice(NETCODE_VERSION_INFO);
            assert!(matches!(server.process_packet(addr, &mut junk), ServerResult::None));
        }
        match server.update_client(1) {
            ServerResult::ClientDisconnected { .. } => {}
            _ => panic!("client silent for 20 s (timeout 5 s) still connected: unauthenticated datagrams postponed its timeout"),
        }
    }
}
