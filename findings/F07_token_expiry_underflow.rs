//@finding F7  property C07  fix 42cfcb7
//@append renetcode/src/lib.rs
//@cmd cargo test -p renetcode --offline verif_demo_f07
// token with expire_timestamp < create_timestamp: update() underflowed
#[cfg(test)]
mod verif_demo_f07 {
    use crate::{ClientAuthentication, ConnectToken, NetcodeClient};
    use std::time::Duration;
    #[test]
    fn verif_demo_f07() {
        let mut t = ConnectToken::generate(Duration::ZERO, 1, 30, 7, 5, vec!["127.0.0.1:5000".parse().unwrap()], None, &[1u8; 32]).unwrap();
        t.create_timestamp = t.expire_timestamp + 10; // what a parser can return for a hostile/corrupt token
        let mut c = NetcodeClient::new(Duration::ZERO, ClientAuthentication::Secure { connect_token: t }).unwrap();
        let _ = c.update(Duration::from_millis(16)); // must return
        assert!(c.is_disconnected());
    }
}
