//@finding F15  property C16  fix 1f6bcab
//@append renetcode/src/packet.rs
//@cmd cargo test -p renetcode --offline verif_demo_f15
// a body-less packet sealed with sequence 0 was 17 bytes long and rejected by decode (minimum 18)
#[cfg(test)]
mod verif_demo_f15 {
    use super::*;
    #[test]
    fn verif_demo_f15() {
        let key = [3u8; 32];
        let mut buf = [0u8; 64];
        let n = Packet::Disconnect.encode(&mut buf, 1, Some((0, &key))).unwrap();
        let (seq, p) = Packet::decode(&mut buf[..n], 1, Some(&key), None).expect("every packet the library builds must decode");
        assert_eq!((seq, p), (0, Packet::Disconnect));
    }
}
