//@finding F11  property C13  fix f2d8b7a
//@append renet/src/lib.rs
//@cmd cargo test -p renet --offline verif_demo_f11
// packets arriving with decreasing, widely spaced sequence numbers: > 64 ack ranges, the ack packet outgrows
// its 1400-byte buffer and the healthy connection is dropped with PacketSerialization
#[cfg(test)]
mod verif_demo_f11 {
    use crate::{ConnectionConfig, RenetClient};
    #[test]
    fn verif_demo_f11() {
        let mut c = RenetClient::new(ConnectionConfig::default());
        c.set_connected();
        for i in 0..180u64 {
            let seq: u64 = (200 - i) << 40; // 8-byte varints, decreasing
            let mut p = vec![1u8]; // SmallUnreliable
            p.extend_from_slice(&(seq | (0b11 << 62)).to_be_bytes());
            p.extend_from_slice(&[0, 0, 0]); // channel 0, zero messages
            c.process_packet(&p);
            assert!(!c.is_disconnected());
        }
        let packets = c.get_packets_to_send();
        assert!(!c.is_disconnected(), "connection dropped: {:?}", c.disconnect_reason());
        assert!(packets.iter().all(|p| p.len() <= 1300));
    }
}
