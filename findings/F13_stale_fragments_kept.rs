//@finding F13  property C09  fix 0d1dada
//@append renet/src/channel/unreliable.rs
//@cmd cargo test -p renet --offline verif_demo_f13
// fragments of message id 1 are stale (3.5 s) but id 0 saw progress 1.5 s ago: the scan stopped at id 0
#[cfg(test)]
mod verif_demo_f13 {
    use super::*;
    #[test]
    fn verif_demo_f13() {
        let mut recv = ReceiveChannelUnreliable::new(0, 10_000);
        let s = |id: u64| Slice { message_id: id, slice_index: 0, num_slices: 3, payload: vec![1u8; SLICE_SIZE].into() };
        recv.process_slice(s(0), Duration::ZERO).unwrap();
        recv.process_slice(s(1), Duration::ZERO).unwrap();
        let mut again = s(0);
        again.slice_index = 1;
        recv.process_slice(again, Duration::from_secs(2)).unwrap();
        recv.discard_incomplete_old_slices(Duration::from_millis(3500));
        // id 1 made no progress for 3.5 s: its 3600 reserved bytes must be back
        assert_eq!(recv.memory_usage_bytes, 3 * SLICE_SIZE);
    }
}
