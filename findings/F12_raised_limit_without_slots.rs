//@finding F12  property C18/C10  fix 4b429b0
//@append renetcode/src/server.rs
//@cmd cargo test -p renetcode --offline verif_demo_f12
// The number of client slots is fixed at construction; set_max_clients only changed the number.  After raising the
// limit a valid handshake was refused ("denied") although fewer clients were connected than the current limit.
#[cfg(test)]
mod verif_demo_f12 {
    use super::*;
    use crate::{client::NetcodeClient, token::ConnectToken, ClientAuthentication};
    const KEY: &[u8; NETCODE_KEY_BYTES] = b"an example very very secret key.";
    fn handshake(server: &mut NetcodeServer, id: u64, addr: SocketAddr) -> bool {
        let token = ConnectToken::generate(server.current_time(), 7, 300, id, 5, server.addresses(), None, KEY).unwrap();
        let mut client = NetcodeClient::new(server.current_time(), ClientAuthentication::Secure { connect_token: token }).unwrap();
        let (req, _) = client.update(Duration::ZERO).unwrap();
        let mut req = req.to_vec();
        let mut challenge = match server.process_packet(addr, &mut req) {
            ServerResult::PacketToSend { payload, .. } => payload.to_vec(),
            _ => return false,
        };
        assert!(client.process_packet(&mut challenge).is_none());
        let (resp, _) = match client.update(Duration::from_millis(300)) {
            Some(x) => x,
            None => return false,
        };
        let mut resp = resp.to_vec();
        matches!(server.process_packet(addr, &mut resp), ServerResult::ClientConnected { .. })
    }
    #[test]
    fn verif_demo_f12() {
        let mut server = NetcodeServer::new(ServerConfig {
            current_time: Duration::ZERO,
            max_clients: 1,
            protocol_id: 7,
            public_addresses: vec!["127.0.0.1:5000".parse().unwrap()],
            authentication: ServerAuthentication::Secure { private_key: *KEY },
        });
        assert!(handshake(&mut server, 1, "127.0.0.1:3001".parse().unwrap()));
        server.set_max_clients(2);
        assert_eq!(server.max_clients(), 2);
        assert!(server.connected_clients() < server.max_clients());
        assert!(
            handshake(&mut server, 2, "127.0.0.1:3002".parse().unwrap()),
            "valid handshake refused although fewer clients are connected than the current limit"
        );
        assert_eq!(server.connected_clients(), 2);
    }
}
