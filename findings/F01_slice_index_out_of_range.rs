//@finding F1  property C06  fix 316f9d1
//@append renet/src/lib.rs
//@cmd cargo test -p renet --offline verif_demo_f01
// A peer sends a reliable slice whose slice_index is not below num_slices: the receiver panicked.
#[cfg(test)]
mod verif_demo_f01 {
    use crate::{ConnectionConfig, RenetClient};
    #[test]
    fn verif_demo_f01() {
        let mut c = RenetClient::new(ConnectionConfig::default());
        // type 2 (ReliableSlice), sequence 0, channel 2 (ReliableOrdered), message id 0, slice_index 5, num_slices 2, len 1200
        let mut p = vec![2u8, 0, 2, 0, 5, 2, 0x44, 0xB0];
        p.extend(std::iter::repeat(7u8).take(1200));
        c.process_packet(&p); // must return: processed or disconnected with a reason
        assert!(c.is_disconnected());
    }
}
