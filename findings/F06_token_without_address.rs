//@finding F6  property C07  fix a82caa6
//@append renetcode/src/lib.rs
//@cmd cargo test -p renetcode --offline verif_demo_f06
// a connect token announcing zero server addresses parses, then NetcodeClient::new panicked on expect()
#[cfg(test)]
mod verif_demo_f06 {
    use crate::{ClientAuthentication, ConnectToken, NetcodeClient};
    use std::time::Duration;
    #[test]
    fn verif_demo_f06() {
        let good = ConnectToken::generate(Duration::ZERO, 1, 30, 7, 5, vec!["127.0.0.1:5000".parse().unwrap()], None, &[1u8; 32]).unwrap();
        let mut bytes = Vec::new();
        good.write(&mut bytes).unwrap();
        // address count lives after id 8, version 13, protocol 8, create 8, expire 8, xnonce 24, private 1024, timeout 4
        let off = 8 + 13 + 8 + 8 + 8 + 24 + 1024 + 4;
        bytes[off..off + 4].copy_from_slice(&0u32.to_le_bytes());
        bytes.drain(off + 4..off + 4 + 7); // drop the single IPv4 entry
        let token = ConnectToken::read(&mut bytes.as_slice()).expect("parser accepts it");
        let r = NetcodeClient::new(Duration::ZERO, ClientAuthentication::Secure { connect_token: token });
        assert!(r.is_err());
    }
}
