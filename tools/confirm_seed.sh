#!/bin/bash
# ./tools/confirm_seed.sh seeded/<dir>  : confirm in a scratch worktree of /repo HEAD that
#   (1) the demo passes on the pristine tree, (2) with patch.diff the existing tests pass, (3) with patch.diff the demo fails
set -u
sd="$1"
hdr=$(head -3 "$sd/demo.rs")
rel=$(echo "$hdr" | grep -oE '(renet|renetcode|renet_netcode)/tests/[a-z0-9_]+\.rs' | head -1)
crate=${rel%%/*}
tname=$(basename "$rel" .rs)
d=$(mktemp -d /var/tmp/verif-seed-XXXX)
git -C /repo worktree add -q --detach "$d/w" HEAD || exit 2
cp /repo/Cargo.lock "$d/w/" 2>/dev/null
mkdir -p "$d/w/$crate/tests"; cp "$sd/demo.rs" "$d/w/$rel"
export CARGO_TARGET_DIR="$d/target"
(cd "$d/w" && cargo test -p $crate --offline --test $tname > "$d/pristine.log" 2>&1); r1=$?
if ! git -C "$d/w" apply --check "$PWD/$sd/patch.diff" 2>/dev/null; then echo "$sd: PATCH DOES NOT APPLY to HEAD"; git -C /repo worktree remove --force "$d/w"; rm -rf "$d"; exit 3; fi
git -C "$d/w" apply "$PWD/$sd/patch.diff"
(cd "$d/w" && cargo test -p $crate --offline --test $tname > "$d/patched.log" 2>&1); r2=$?
rm -f "$d/w/$rel"
(cd "$d/w" && cargo test -p renet -p renetcode -p renet_netcode -p renet_visualizer --offline > "$d/suite.log" 2>&1); r3=$?
echo "$sd: demo pristine exit=$r1 ($(grep -m1 'test result' $d/pristine.log | cut -c1-60)) | demo patched exit=$r2 ($(grep -m1 'test result' $d/patched.log | cut -c1-60)) | suite with patch exit=$r3 ($(grep -c 'test result: ok' $d/suite.log) ok groups, $(grep -c 'test result: FAILED' $d/suite.log) failed)"
git -C /repo worktree remove --force "$d/w"; rm -rf "$d"
