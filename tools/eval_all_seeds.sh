#!/bin/bash
# targeted evaluation of every seeded change: the lemmas expected to notice it (tier in column 3), 3 seeds at a time
cd /verif
cat > /var/tmp/seedplan.txt <<'PLAN'
C01_s01 C01 quick rs_ack_slice_n2
C02_s01 C02 quick rr_msg_unord_m0,rr_msg_unord_m1
C03_s02 C03 quick sc_step_1201_1,sc_step_2400_0
C04_s03 C04 quick rp_once,rp_complete,rp_old
C05_s04 C05 quick tok_entry_n1,tok_entry_n2
C06_s05 C06 thorough ur_slice_i0,ur_slice_other,ur_slice_oob
C07_s05 C07 quick srv_req_unauth
C08_s06 C08 quick rs_ack_slice_n2
C09_s02 C09 quick rr_msg_ord_m0,rr_msg_ord_m1
C10_s04 C10 quick ns_frame_connected_01_k1
C12_s07 C12 quick ev_add_n0,ev_disconnect_n1
C13_s08 C13 thorough rs_size_small_n3
C14_s07 C14 quick us_gps_n1,us_gps_n2
C15_s06 C15 quick rs_gps_sliced_n2,rs_gps_sliced_n3
C16_s08 C16 thorough rt_renet_ack_2
C17_s03 C17 thorough ns_resp_guard_11
C05_s11 C05 quick tok_entry_n1,tok_entry_n2
C10_s12 C10 quick ns_update_client_01_k1,srv_disconnect_01
C18_s13 C18 thorough ns_resp_guard_00
C19_s14 C19 thorough ns_req_guard_11_e1
C11_s15 C11 quick bcast_except_rel
C07_s16 C07 quick ns_frame_connected_01_k1
PLAN
: > /var/tmp/seedeval.log
grep -v '^#' /var/tmp/seedplan.txt | grep "${SEED_FILTER:-.}" | xargs -P ${SEED_PAR:-3} -L 1 bash -c 'SEED_TIER=$2 SEED_JOBS=3 ./tools/eval_seed.sh seeded/$0 $1 $3 >> /var/tmp/seedeval_$0.log 2>&1; cat /var/tmp/seedeval_$0.log >> /var/tmp/seedeval.log'
echo ALLDONE >> /var/tmp/seedeval.log
