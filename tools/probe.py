#!/usr/bin/env python3
"""probe.py <stage_dir> <crate> <file.rs> <jobs> <timeout_s> <mem_gb> [--fs N] h1 h2 ...  - run harnesses of an already staged copy, print status/time"""
import sys, os, json
sys.path.insert(0, os.path.dirname(os.path.abspath(__file__)))
import kani_run
a = sys.argv[1:]
d, crate, f, jobs, tmo, mem = a[0], a[1], a[2], int(a[3]), int(a[4]), int(a[5])
rest = a[6:]
extra = []
if rest and rest[0] == "--fs":
    extra = ["--cbmc-args", "--max-field-sensitivity-array-size", rest[1]]
    rest = rest[2:]
mod = "::".join([x for x in f[:-3].split("/") if x not in ("lib", "mod")] + ["verif_kani"])
names = ["%s::%s" % (mod, h) for h in rest]
tag = "probe_%d" % os.getpid()
res, meta = kani_run.run_group(d, crate, names, jobs, tmo, mem, tag, extra_args=extra)
for n in names:
    r = res[n]
    st = r.get("stats") or {}
    print("%-40s %-14s t=%s symex=%s solver=%s checks=%d failed=%s covers=%s" % (n.split("::")[-1], r["status"], r.get("time_s"), st.get("runtime_symex_s"), st.get("runtime_solver_s"), r.get("checks_total", 0),
          [(x["description"], x["line"]) for x in r["failed"]][:5], [(c["description"], c["status"]) for c in r.get("covers", [])]))
    if r["status"] in ("missing", "build_error"):
        print("   ", r.get("detail"))
print("log:", meta["log"])
