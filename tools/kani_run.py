"""Run a group of Kani harnesses on a staged copy, parse Kani's JSON export, replay failures."""
import json
import os
import re
import resource
import shutil
import signal
import subprocess
import threading
import time

KANI_ENV = {
    "CARGO_NET_OFFLINE": "true",
    "CARGO_TERM_COLOR": "never",
}


def _env(target_dir=None):
    e = dict(os.environ)
    e.update(KANI_ENV)
    e.pop("RUSTUP_TOOLCHAIN", None)
    e.pop("RUSTFLAGS", None)
    if target_dir:
        e["CARGO_TARGET_DIR"] = target_dir
    return e


def _run(cmd, cwd, log, timeout, mem_gb, env):
    """run under ulimit -v and a wall-clock timeout; kill the whole process group on timeout"""
    # the memory cap applies to cbmc only (tools/bin/cbmc wrapper); capping the Kani driver itself
    # makes it die with "memory allocation failed" under -j
    env = dict(env)
    env["VERIF_CBMC_MEM_KB"] = str(int(mem_gb * 1024 * 1024))
    env["PATH"] = os.path.join(os.path.dirname(os.path.abspath(__file__)), "bin") + ":" + env.get("PATH", "")
    sh = "exec %s" % " ".join(_q(c) for c in cmd)
    t0 = time.time()
    with open(log, "w") as lf:
        p = subprocess.Popen(["bash", "-c", sh], cwd=cwd, stdout=lf, stderr=subprocess.STDOUT, env=env, start_new_session=True)
        # Kani prepends its own bin directory to PATH, so the tools/bin/cbmc wrapper is bypassed: cap every cbmc
        # of this session from outside (prlimit RLIMIT_AS) as soon as it appears
        stop = threading.Event()
        wd = threading.Thread(target=_cap_cbmc, args=(p.pid, int(mem_gb * 1024 * 1024 * 1024), stop, log), daemon=True)
        wd.start()
        try:
            rc = p.wait(timeout=timeout)
            timed_out = False
        except subprocess.TimeoutExpired:
            timed_out = True
            try:
                os.killpg(p.pid, signal.SIGKILL)
            except ProcessLookupError:
                pass
            p.wait()
            rc = -9
        finally:
            stop.set()
    return rc, timed_out, time.time() - t0


OOM_KILLED = {}  # log path -> list of goto-binary names whose cbmc was killed for memory


def _cap_cbmc(sid, cap_bytes, stop, log=None):
    """RSS watchdog: kill any cbmc of this session whose resident set exceeds the cap, and the largest one when the
    machine runs short of memory (no swap here).  RLIMIT_AS is not used: cadical reserves far more address space
    than it touches."""
    page = os.sysconf("SC_PAGE_SIZE")
    while not stop.is_set():
        try:
            procs = []
            for ent in os.listdir("/proc"):
                if not ent.isdigit():
                    continue
                pid = int(ent)
                try:
                    if os.getsid(pid) != sid:
                        continue
                    if os.path.basename(os.readlink("/proc/%d/exe" % pid)) != "cbmc":
                        continue
                    rss = int(open("/proc/%d/statm" % pid).read().split()[1]) * page
                    procs.append((rss, pid))
                except (OSError, ValueError, IndexError):
                    continue
            avail = None
            try:
                for ln in open("/proc/meminfo"):
                    if ln.startswith("MemAvailable:"):
                        avail = int(ln.split()[1]) * 1024
                        break
            except OSError:
                pass
            victims = [(r, p) for r, p in procs if r > cap_bytes]
            if not victims and avail is not None and avail < 3 * 1024 ** 3 and procs and max(procs)[0] > 4 * 1024 ** 3:
                victims = [max(procs)]  # (a small process is never the one to give way)
            for rss, pid in victims:
                try:
                    cmd = open("/proc/%d/cmdline" % pid).read().split("\0")
                    name = [c for c in cmd if c.endswith(".out")]
                    os.kill(pid, signal.SIGKILL)
                    if log is not None:
                        OOM_KILLED.setdefault(log, []).append((name[-1] if name else "", rss))
                except OSError:
                    pass
        except OSError:
            pass
        stop.wait(0.5)


def _q(s):
    if re.match(r"^[A-Za-z0-9_./=:,+-]+$", s):
        return s
    return "'" + s.replace("'", "'\\''") + "'"


def run_group(stage_dir, crate, harnesses, jobs, harness_timeout, mem_gb, tag, extra_args=(), with_playback=False):
    """harnesses: list of harness function names (exact).  Returns dict name -> result."""
    out_json = os.path.join(stage_dir, "kani_%s.json" % tag)
    log = os.path.join(stage_dir, "kani_%s.log" % tag)
    if os.path.exists(out_json):
        os.remove(out_json)
    cmd = ["cargo", "kani", "-p", crate, "--output-format", "terse",
           "-Z", "unstable-options", "-Z", "stubbing", "--export-json", out_json, "--harness-timeout", "%ds" % harness_timeout, "--exact"]
    if with_playback:
        jobs = 1
        cmd += ["-Z", "concrete-playback", "--concrete-playback=print"]
    else:
        cmd += ["-j", str(jobs)]
    for h in harnesses:
        cmd += ["--harness", h]
    cmd += list(extra_args)
    # wall clock: all harnesses could serialize on `jobs` workers
    rounds = (len(harnesses) + jobs - 1) // jobs
    wall = 240 + rounds * (harness_timeout + 30)
    if with_playback:
        wall = harness_timeout + 45
    rc, timed_out, secs = _run(cmd, stage_dir, log, wall, mem_gb, _env(os.path.join(stage_dir, "target")))
    text = open(log, errors="replace").read()
    results = {}
    for h in harnesses:
        results[h] = {"harness": h, "status": "missing", "checks_total": 0, "failed": [], "covers": [], "time_s": None,
                      "stats": {}, "playback": [], "log": log}
    build_failed = ("error: could not compile" in text) or ("error[E" in text)
    if build_failed:
        errs = re.findall(r"(?m)^error(?:\[E\d+\])?: .*$", text)[:8]
        for h in harnesses:
            results[h]["status"] = "build_error"
            results[h]["detail"] = errs
        return results, {"rc": rc, "secs": secs, "build_failed": True, "log": log}
    data = None
    if os.path.exists(out_json):
        try:
            data = json.load(open(out_json))
        except Exception:
            data = None
    if data:
        def short(hid):
            return hid
        for r in data.get("verification_results", {}).get("results", []):
            h = short(r["harness_id"])
            if h not in results:
                continue
            res = results[h]
            res["full_name"] = r["harness_id"]
            res["time_s"] = r.get("duration_ms", 0) / 1000.0
            checks = r.get("checks", [])
            res["checks_total"] = len(checks)
            st = r.get("status")
            failed = []
            covers = []
            unwind_fail = False
            undetermined = 0
            for c in checks:
                cs = c.get("status", "")
                desc = c.get("description", "")
                loc = c.get("location", {}) or {}
                item = {"description": desc.strip('"'), "function": c.get("function", ""), "file": loc.get("file", ""),
                        "line": loc.get("line", ""), "category": c.get("category", ""), "status": cs}
                if c.get("category") == "cover" or cs.upper() in ("SATISFIED", "UNSATISFIABLE", "COVERED", "UNCOVERED"):
                    covers.append(item)
                    continue
                if cs.upper() == "FAILURE":
                    if "unwinding assertion" in desc or c.get("category") == "unwind":
                        unwind_fail = True
                    failed.append(item)
                elif cs.upper() == "UNDETERMINED":
                    undetermined += 1
            res["failed"] = failed
            res["covers"] = covers
            res["undetermined"] = undetermined
            res["unwind_fail"] = unwind_fail
            if st == "Success":
                res["status"] = "success"
            elif st == "Failure":
                res["status"] = "failure"
            else:
                res["status"] = "error:%s" % st
        for c in data.get("cbmc", []):
            h = short(c["harness_id"])
            if h in results:
                results[h]["stats"] = c.get("cbmc_stats", {})
        for e in data.get("error_details", []):
            h = short(e["harness_id"])
            if h in results and e.get("has_errors"):
                results[h]["error_type"] = e.get("error_type")
                results[h]["exit_status"] = e.get("exit_status")
                if e.get("exit_status") not in (None, "properties_failed") and results[h]["status"] != "success":
                    results[h]["status"] = "error:%s" % e.get("exit_status")
    # timeouts / errors reported only in the log
    for h in harnesses:
        res = results[h]
        if res["status"] in ("missing",) or res["status"].startswith("error"):
            m = re.search(r"(?s)Checking harness %s\.\.\.(.{0,4000})" % re.escape(h), text)
            if re.search(r"(?i)timed? ?out[^\n]*%s|%s[^\n]*timed? ?out" % (re.escape(h), re.escape(h)), text):
                res["status"] = "timeout"
            elif m and re.search(r"(?i)out of memory|bad_alloc|std::bad_alloc|killed", m.group(1)):
                res["status"] = "oom"
    for gb, rss in OOM_KILLED.pop(log, []):
        for h in harnesses:
            short = h.split("::")[-1]
            # the goto binary is named after the mangled harness path: ...<len><name>.out
            if gb.endswith("%d%s.out" % (len(short), short)) and results[h]["status"] != "success":
                results[h]["status"] = "oom"
                results[h]["detail"] = "cbmc killed by the memory watchdog at %.1f GB resident" % (rss / 1024.0 ** 3)
    if timed_out:
        for h in harnesses:
            if results[h]["status"] == "missing":
                results[h]["status"] = "timeout"
    tail = [ln for ln in text.splitlines() if ln.strip() and not ln.startswith(("warning", " ", "note"))][-6:]
    for h in harnesses:
        if results[h]["status"] == "missing":
            results[h]["detail"] = tail
    # playback tests printed by Kani
    for m in re.finditer(r"Concrete playback unit test for `([\w:]+)`:\s*```\n(.*?)```", text, re.S):
        h = m.group(1)
        if h in results:
            results[h]["playback"].append(m.group(2))
    return results, {"rc": rc, "secs": secs, "build_failed": False, "log": log, "timed_out": timed_out}


TEST_NAME = re.compile(r"fn (kani_concrete_playback_\w+)\(\)")


def playback(stage_dir, crate, harness_file, tests, release=False, timeout=600):
    """append the generated unit tests to the staged harness file and run them natively.
    Returns list of dicts {test, reproduced, panic, assume_failed, output_tail}."""
    names = []
    with open(harness_file, "a") as f:
        for t in tests:
            m = TEST_NAME.search(t)
            if not m:
                continue
            # avoid duplicate definitions when called twice
            names.append(m.group(1))
            f.write("\n" + t + "\n")
    out = []
    for n in names:
        log = os.path.join(stage_dir, "playback_%s%s.log" % (n, "_rel" if release else ""))
        cmd = ["cargo", "kani", "playback", "-Z", "concrete-playback", "-p", crate]
        if release:
            cmd += ["--release"]
        cmd += ["--", n, "--exact", "--nocapture"] if False else ["--", n]
        env = _env(os.path.join(stage_dir, "target_pb"))
        env["RUST_BACKTRACE"] = "0"
        rc, to, secs = _run(cmd, stage_dir, log, timeout, 16, env)
        text = open(log, errors="replace").read()
        ran = re.search(r"test result: (\w+)\. (\d+) passed; (\d+) failed", text)
        panic = ""
        pm = re.search(r"panicked at ([^\n]*)\n([^\n]*)", text)
        if pm:
            panic = (pm.group(1) + " :: " + pm.group(2)).strip()
        # (only the panic message counts: compiler warnings in the log quote harness source lines)
        assume_failed = "assume" in panic.lower() or "assumption" in panic.lower()
        reproduced = bool(ran and ran.group(1) == "FAILED" and int(ran.group(3)) >= 1 and not assume_failed)
        out.append({"test": n, "reproduced": reproduced, "ran": bool(ran), "panic": panic, "assume_failed": assume_failed,
                    "release": release, "secs": secs, "log": log})
    return out
