"""Parser / rewriter for Rust `use` declarations (purely syntactic, fails closed).

A `use` tree is flattened into leaf paths; leaves whose path starts with one of the
prefixes of the rewrite table are re-rooted; every leaf is re-emitted as one `use` line.
Anything that cannot be parsed raises UseTreeError -> the staging step ends inconclusive.
"""
import re


class UseTreeError(Exception):
    pass


TOKEN = re.compile(r"\s*(::|\{|\}|,|\*|[A-Za-z_][A-Za-z0-9_]*|r#[A-Za-z_][A-Za-z0-9_]*)")


def _tokens(s):
    pos = 0
    out = []
    s = s.strip()
    while pos < len(s):
        m = TOKEN.match(s, pos)
        if not m:
            raise UseTreeError("cannot tokenise use tree at: %r" % s[pos:pos + 30])
        out.append(m.group(1))
        pos = m.end()
    return out


def _parse_tree(toks, i, prefix):
    """returns (leaves, next_index); leaf = (path_list, alias_or_None)"""
    leaves = []
    path = list(prefix)
    while True:
        if i >= len(toks):
            raise UseTreeError("unexpected end of use tree")
        t = toks[i]
        if t == "{":
            i += 1
            while True:
                if toks[i] == "}":
                    i += 1
                    break
                sub, i = _parse_tree(toks, i, path)
                leaves.extend(sub)
                if toks[i] == ",":
                    i += 1
                elif toks[i] == "}":
                    i += 1
                    break
                else:
                    raise UseTreeError("expected , or } in use tree")
            return leaves, i
        if t == "*":
            leaves.append((path + ["*"], None))
            return leaves, i + 1
        if t in ("::", ",", "}"):
            raise UseTreeError("unexpected token %r in use tree" % t)
        path.append(t)
        i += 1
        if i < len(toks) and toks[i] == "::":
            i += 1
            continue
        alias = None
        if i < len(toks) and toks[i] == "as":
            alias = toks[i + 1]
            i += 2
        leaves.append((path, alias))
        return leaves, i


def flatten(tree_src):
    toks = _tokens(tree_src)
    leaves, i = _parse_tree(toks, 0, [])
    if i != len(toks):
        raise UseTreeError("trailing tokens in use tree: %r" % toks[i:])
    return leaves


USE_STMT = re.compile(r"(?ms)^(?P<indent>[ \t]*)(?P<vis>pub(?:\([^)]*\))?\s+)?use\s+(?P<tree>[^;]+);")


def rewrite_uses(src, table):
    """table: list of (prefix_list, new_prefix_list). Returns (new_src, n_rewritten)."""
    count = [0]

    def reroot(path):
        for old, new in table:
            if path[:len(old)] == old:
                count[0] += 1
                return new + path[len(old):]
        return None

    def repl(m):
        tree = m.group("tree")
        # strip line comments inside the tree
        tree_nc = re.sub(r"//[^\n]*", "", tree)
        leaves = flatten(tree_nc)
        hit = False
        new_leaves = []
        for path, alias in leaves:
            # `self` leaf: use a::b::{self} == use a::b
            if path and path[-1] == "self":
                path = path[:-1]
            r = reroot(path)
            if r is not None:
                hit = True
                new_leaves.append((r, alias))
            else:
                new_leaves.append((path, alias))
        if not hit:
            return m.group(0)
        ind = m.group("indent")
        vis = m.group("vis") or ""
        lines = []
        for path, alias in new_leaves:
            s = "%s%suse %s" % (ind, vis, "::".join(path))
            if alias:
                s += " as " + alias
            lines.append(s + ";")
        # keep the number of lines stable where possible is not required: harness modules are
        # appended at the end, and Kani reports file:line of the staged copy.
        return " ".join(lines) + "\n" * m.group(0).count("\n")

    return USE_STMT.sub(repl, src), count[0]
