#!/bin/bash
# ./tools/run_demo.sh findings/Fxx_*.rs   - show that the demonstration FAILS before the fix commit and PASSES at it
set -u
f="$1"
fix=$(grep -m1 '^//@finding' "$f" | sed -E 's/.* fix ([0-9a-f]+).*/\1/')
target=$(grep -m1 '^//@append' "$f" | awk '{print $2}')
cmd=$(grep -m1 '^//@cmd' "$f" | sed 's/^\/\/@cmd //')
for rev in "$fix^" "$fix"; do
  d=$(mktemp -d /var/tmp/verif-demo-XXXX)
  git -C /repo worktree add -q --detach "$d/w" "$rev" || exit 2
  cp /repo/Cargo.lock "$d/w/" 2>/dev/null
  cat "$f" >> "$d/w/$target"
  (cd "$d/w" && CARGO_TARGET_DIR="$d/target" $cmd > "$d/out.log" 2>&1); rc=$?
  echo "$(basename $f) @ $rev : exit $rc  $(grep -m1 'test result' $d/out.log)"
  git -C /repo worktree remove --force "$d/w"; rm -rf "$d"
done
