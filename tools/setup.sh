#!/bin/bash
# Run once after a fresh restore, offline.  Nothing persistent is built: every check stages and
# builds from /repo's working tree.  This only verifies the tool chain is present.
set -e
export CARGO_NET_OFFLINE=true
cargo kani --version
python3 -c "import json,sys; json.load(open('/verif/MANIFEST.json')); print('manifest ok')"
mkdir -p /verif/evidence /verif/replays
