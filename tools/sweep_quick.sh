#!/bin/bash
# run every property's quick check in sequence (as the harness does), log exit code and wall time
cd /verif
out=${1:-/var/tmp/sweep_quick.log}
: > $out
for p in ${PROPS:-C01 C02 C03 C04 C05 C06 C07 C08 C09 C10 C11 C12 C13 C14 C15 C16 C17 C18 C19}; do
  t0=$(date +%s)
  ./check $p --tier quick --jobs ${JOBS:-14} > /var/tmp/sweep_$p.log 2>&1; rc=$?
  t1=$(date +%s)
  echo "$p rc=$rc wall=$((t1-t0)) $(tail -1 /var/tmp/sweep_$p.log)" >> $out
done
echo DONE >> $out
