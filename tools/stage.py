#!/usr/bin/env python3
"""Stage the CURRENT working tree of /repo into a scratch workspace for Kani.

The encoding is regenerated from /repo on every run:
  * renet/ and renetcode/ are copied byte-for-byte,
  * `use` paths of std::collections / bytes::Bytes / chacha20poly1305 are re-rooted onto the
    model crates-in-a-module (tools/usetree.py; function bodies stay the real ones),
  * `#[cfg(test)]` becomes `#[cfg(all(test, not(kani)))]` (the repo's tests need dev-dependencies
    that are not staged; Kani playback builds the test target with --cfg kani),
  * per source file that has a harness in /verif/harness/<crate>/, the harness is copied next to
    it and `#[cfg(kani)] #[path = ...] mod verif_kani;` is appended (child module => may build
    private pre-states and call private functions; nothing in /repo has to become pub).
Fails closed: anything unexpected raises StageError (the check then ends inconclusive, exit 2).
"""
import os
import re
import shutil
import sys

sys.path.insert(0, os.path.dirname(os.path.abspath(__file__)))
from usetree import rewrite_uses, UseTreeError  # noqa: E402

VERIF = os.path.dirname(os.path.dirname(os.path.abspath(__file__)))
REPO = os.environ.get("VERIF_REPO", "/repo")


class StageError(Exception):
    pass


RENET_TABLE = [
    (["std", "collections"], ["crate", "verif_models", "collections"]),
    (["bytes", "Bytes"], ["crate", "verif_models", "Bytes"]),
]
NETCODE_TABLE = [
    (["std", "collections"], ["crate", "verif_models", "collections"]),
    (["chacha20poly1305"], ["crate", "verif_models", "chacha"]),
]


def _read(p):
    with open(p, encoding="utf-8") as f:
        return f.read()


def _write(p, s):
    os.makedirs(os.path.dirname(p), exist_ok=True)
    with open(p, "w", encoding="utf-8") as f:
        f.write(s)


def _rs_files(root):
    for d, _, fs in os.walk(root):
        for f in sorted(fs):
            if f.endswith(".rs"):
                yield os.path.join(d, f)


def strip_comments_and_strings(src):
    """crude: remove // comments, /* */ comments and string literals (for leftover-token scans)"""
    src = re.sub(r"/\*.*?\*/", "", src, flags=re.S)
    src = re.sub(r"//[^\n]*", "", src)
    src = re.sub(r'"(?:\\.|[^"\\])*"', '""', src)
    return src


REPR_ENUMS = {"UnackedMessage", "Packet"}
ENUM_DECL = re.compile(r"(?m)^(?P<ind>[ \t]*)(?P<vis>pub(?:\([^)]*\))?\s+)?enum\s+\w+")


def add_enum_repr(src):
    """Give every enum an explicit tag (#[repr(u8)]).  Layout only - not observable by safe code - but
    niche-encoded discriminants are opaque to CBMC's constant propagation: every match arm gets
    explored with garbage payloads (measured: OOM vs 67 s for one get_packets_to_send step)."""
    out = []
    pos = 0
    n = 0
    for m in ENUM_DECL.finditer(src):
        name = m.group(0).split()[-1]
        # whitelist: Kani 0.68 mis-models writes through `&mut` variant bindings of an explicit-repr
        # enum that holds a model set (ReliableOrder: spurious failures, caught by native playback),
        # so only the enums whose tag matters for feasibility - and whose lemmas were cross-checked by
        # native playback - are tagged
        if name not in REPR_ENUMS:
            continue
        # look at the attribute lines directly above
        head = src[:m.start()]
        prev = head.rstrip().splitlines()[-3:] if head.strip() else []
        if any("#[repr" in ln for ln in prev):
            continue
        out.append(src[pos:m.start()])
        out.append("%s#[repr(u8)] " % m.group("ind"))
        pos = m.start() + len(m.group("ind"))
        n += 1
    out.append(src[pos:])
    return "".join(out), n


NETCODE_SHRINKABLE = {"NETCODE_USER_DATA_BYTES", "NETCODE_CONNECT_TOKEN_PRIVATE_BYTES", "NETCODE_CHALLENGE_TOKEN_BYTES",
                      "NETCODE_MAX_PACKET_BYTES", "NETCODE_MAX_PAYLOAD_BYTES"}


def shrink_netcode_consts(s, rel, consts):
    """model-tiny: rewrite the LITERALS of size constants in renetcode/src/lib.rs (the code is parametric in them; the
    relations between them are re-checked by tools/smt_consts.py and by the lemmas that run at the real sizes).  The two
    places that spell the user-data size as a literal 256 are re-pointed at the constant.  Fails closed."""
    if rel == "lib.rs":
        for name, val in consts.items():
            if name not in NETCODE_SHRINKABLE:
                raise StageError("constant %s is not shrinkable" % name)
            s, n = re.subn(r"(?m)^(\s*(?:pub )?const %s: usize = )\d+;" % name, r"\g<1>%d;" % val, s)
            if n != 1:
                raise StageError("cannot rewrite %s" % name)
    if "NETCODE_USER_DATA_BYTES" in consts:
        if rel == "packet.rs":
            s, n = re.subn(r"pub user_data: \[u8; 256\]", "pub user_data: [u8; NETCODE_USER_DATA_BYTES]", s)
            if n > 1:
                raise StageError("unexpected user_data literals in packet.rs")
        if rel == "token.rs":
            s, n = re.subn(r"let mut user_data = \[0u8; 256\];", "let mut user_data = [0u8; NETCODE_USER_DATA_BYTES];", s)
            if n > 1:
                raise StageError("unexpected user_data literals in token.rs")
    return s


CONTRACT_CALLS = [
    (r"\bPacket::decode\(", "Packet::verif_decode("),
    (r"\bpacket\.encode\(", "packet.verif_encode("),
    (r"\bPacket::generate_challenge\(", "Packet::verif_generate_challenge("),
    (r"\bChallengeToken::decode\(", "ChallengeToken::verif_decode("),
    (r"\bPrivateConnectToken::decode\(", "PrivateConnectToken::verif_decode("),
]


def use_contracts(s):
    """variant "contracts": the calls renetcode/src/server.rs makes into packet.rs / token.rs are re-pointed at contract
    functions (harness/renetcode/{packet,token}.rs) whose guarantees are what the packet / token lemmas prove about the
    real callees.  Fails closed when a call family is not found at all."""
    for pat, rep in CONTRACT_CALLS:
        s, n = re.subn(pat, rep, s)
        if n < 1:
            raise StageError("contract variant: no call matching %s in server.rs" % pat)
    return s


def stage(dest, crate, bytes_model="len", cap=2, qcap=2, max_clients=None, replay_window=None, harness_dir=None, models=True, slice_size=None, consts=None, contracts=False):
    """crate: 'renet' | 'renetcode'.  Returns dict with info for the evidence file."""
    harness_dir = harness_dir or os.path.join(VERIF, "harness")
    src_crate = os.path.join(REPO, crate)
    if not os.path.isdir(src_crate):
        raise StageError("missing crate dir %s" % src_crate)
    if os.path.exists(dest):
        shutil.rmtree(dest)
    os.makedirs(dest)
    dst_crate = os.path.join(dest, crate)
    shutil.copytree(src_crate, dst_crate, ignore=shutil.ignore_patterns("target", "examples", "benches", "tests"))
    lock = os.path.join(REPO, "Cargo.lock")
    if os.path.isfile(lock):
        shutil.copy(lock, os.path.join(dest, "Cargo.lock"))
    _write(os.path.join(dest, "Cargo.toml"), '[workspace]\nmembers = ["%s"]\nresolver = "2"\n' % crate)
    _write(os.path.join(dest, ".cargo", "config.toml"), "[net]\noffline = true\n")

    # ---- Cargo.toml of the crate: drop dev-dependencies, compile `log` with logging off
    ct = _read(os.path.join(dst_crate, "Cargo.toml"))
    ct = re.sub(r"(?ms)^\[dev-dependencies\].*?(?=^\[|\Z)", "", ct)
    ct, n = re.subn(r'(?m)^log\s*=\s*"([^"]+)"\s*$', r'log = { version = "\1", features = ["max_level_off"] }', ct)
    if n != 1:
        raise StageError("cannot patch the log dependency of %s" % crate)
    if models and crate == "renetcode":
        ct, n = re.subn(r'(?m)^chacha20poly1305\s*=.*$', "", ct)
        if n != 1:
            raise StageError("cannot drop the chacha20poly1305 dependency of the staged renetcode")
    if models and crate == "renet":
        ct, n = re.subn(r'(?m)^bytes\s*=.*$', "", ct)
        if n != 1:
            raise StageError("cannot drop the bytes dependency of the staged renet")
    ct += '\n[lints.rust]\nunexpected_cfgs = { level = "allow", check-cfg = ["cfg(kani)"] }\n'
    _write(os.path.join(dst_crate, "Cargo.toml"), ct)

    table = RENET_TABLE if crate == "renet" else NETCODE_TABLE
    info = {"crate": crate, "rewritten_imports": 0, "harness_files": [], "files": 0}
    srcroot = os.path.join(dst_crate, "src")
    for p in _rs_files(srcroot):
        rel = os.path.relpath(p, srcroot)
        s = _read(p)
        info["files"] += 1
        s = s.replace("#[cfg(test)]", "#[cfg(all(test, not(kani)))]")
        s, n_enum = add_enum_repr(s) if crate == "renet" else (s, 0)
        info["enums_tagged"] = info.get("enums_tagged", 0) + n_enum
        if models:
            try:
                s, n = rewrite_uses(s, table)
            except UseTreeError as e:
                raise StageError("%s: %s" % (rel, e))
            info["rewritten_imports"] += n
            bare = strip_comments_and_strings(s)
            for tok in ("std::collections", "bytes::", "chacha20poly1305"):
                if crate == "renetcode" and tok == "bytes::":
                    continue
                if crate == "renet" and tok == "chacha20poly1305":
                    continue
                if re.search(r"(?<![A-Za-z0-9_:])" + re.escape(tok), bare):
                    raise StageError("%s: leftover reference to %s after the import rewrite" % (rel, tok))
        if crate == "renetcode" and rel == "lib.rs":
            if max_clients is not None:
                s, n = re.subn(r"const NETCODE_MAX_CLIENTS: usize = \d+;", "const NETCODE_MAX_CLIENTS: usize = %d;" % max_clients, s)
                if n != 1:
                    raise StageError("cannot shrink NETCODE_MAX_CLIENTS")
        if crate == "renetcode" and rel == "replay_protection.rs" and replay_window is not None:
            s, n = re.subn(r"const NETCODE_REPLAY_BUFFER_SIZE: usize = \d+;", "const NETCODE_REPLAY_BUFFER_SIZE: usize = %d;" % replay_window, s)
            if n != 1:
                raise StageError("cannot shrink NETCODE_REPLAY_BUFFER_SIZE")
        if crate == "renetcode" and consts:
            s = shrink_netcode_consts(s, rel, dict(consts))
        if crate == "renetcode" and contracts and rel == "server.rs":
            s = use_contracts(s)
        if crate == "renet" and contracts and rel == "remote_connection.rs":
            s, n = re.subn(r"\bPacket::from_bytes\(", "Packet::verif_from_bytes(", s)
            if n < 1:
                raise StageError("contract variant: no call of Packet::from_bytes in remote_connection.rs")
        if crate == "renet" and rel == "packet.rs" and slice_size is not None:
            s, n = re.subn(r"pub const SLICE_SIZE: usize = \d+;", "pub const SLICE_SIZE: usize = %d;" % slice_size, s)
            if n != 1:
                raise StageError("cannot rewrite SLICE_SIZE")
        hsrc = os.path.join(harness_dir, crate, rel)
        if os.path.isfile(hsrc):
            hname = "verif_kani_" + rel.replace("/", "_")
            hdst = os.path.join(os.path.dirname(p), hname)
            shutil.copy(hsrc, hdst)
            if not s.endswith("\n"):
                s += "\n"
            s += '#[cfg(kani)]\n#[path = "%s"]\npub(crate) mod verif_kani;\n' % hdst
            info["harness_files"].append(rel)
        if rel == "lib.rs":
            s += '\n#[allow(dead_code, unused_imports, static_mut_refs)]\n#[path = "verif_models.rs"]\npub(crate) mod verif_models;\n'
        _write(p, s)

    # ---- model module
    parts = ["// generated by /verif/tools/stage.py\n#![allow(dead_code)]\n",
             "pub const CAP: usize = %d;\npub const QCAP: usize = %d;\n" % (cap, qcap),
             "pub static mut CAP_HIT: bool = false;\n"]
    if models:
        parts.append(_read(os.path.join(VERIF, "models", "collections.rs")))
        if crate == "renet":
            parts.append(_read(os.path.join(VERIF, "models", "bytes_%s.rs" % bytes_model)))
        else:
            parts.append(_read(os.path.join(VERIF, "models", "chacha.rs")))
            parts.append(_read(os.path.join(VERIF, "models", "netcode_contracts.rs")))
    else:
        parts.append(_read(os.path.join(VERIF, "models", "real_%s.rs" % crate)))
    support = os.path.join(VERIF, "models", "support_%s.rs" % crate)
    if os.path.isfile(support):
        parts.append(_read(support))
    _write(os.path.join(srcroot, "verif_models.rs"), "\n".join(parts))
    info.update({"bytes_model": bytes_model if crate == "renet" else None, "cap": cap, "qcap": qcap,
                 "max_clients": max_clients, "replay_window": replay_window, "models": models, "slice_size": slice_size,
                 "consts": dict(consts) if consts else None, "contracts": bool(contracts)})
    return info


if __name__ == "__main__":
    import argparse
    import json
    ap = argparse.ArgumentParser()
    ap.add_argument("dest")
    ap.add_argument("crate")
    ap.add_argument("--bytes", default="len")
    ap.add_argument("--cap", type=int, default=2)
    ap.add_argument("--qcap", type=int, default=2)
    ap.add_argument("--max-clients", type=int, default=None)
    ap.add_argument("--replay-window", type=int, default=None)
    ap.add_argument("--contracts", action="store_true")
    ap.add_argument("--const", action="append", default=[], help="NAME=VALUE (renetcode size constants)")
    a = ap.parse_args()
    try:
        print(json.dumps(stage(a.dest, a.crate, a.bytes, a.cap, a.qcap, a.max_clients, a.replay_window, consts={c.split('=')[0]: int(c.split('=')[1]) for c in a.const} or None, contracts=a.contracts), indent=1))
    except StageError as e:
        print("STAGE-ERROR:", e)
        sys.exit(2)
