#!/bin/bash
# ./tools/eval_seed.sh seeded/<dir> <property> [harness,harness..]  - run the property's check on a scratch
# worktree of /repo HEAD with the seeded patch applied (same machinery, VERIF_REPO points at the worktree)
sd="$1"; prop="$2"; only="${3:-}"
d=$(mktemp -d /var/tmp/verif-seedrun-XXXX)
git -C /repo worktree add -q --detach "$d/w" HEAD || exit 2
cp /repo/Cargo.lock "$d/w/" 2>/dev/null
git -C "$d/w" apply "$PWD/$sd/patch.diff" || { echo "$sd: patch does not apply"; git -C /repo worktree remove --force "$d/w"; rm -rf "$d"; exit 3; }
args="--tier ${SEED_TIER:-quick} --no-evidence --jobs ${SEED_JOBS:-5}"
[ -n "$only" ] && args="$args --only $only"
VERIF_REPO="$d/w" timeout 3000 ./check $prop $args > "$d/out.log" 2>&1; rc=$?
mkdir -p /tmp/seedlogs; cp "$d/out.log" "/tmp/seedlogs/$(basename $sd)_$prop.log" 2>/dev/null
echo "== $sd $prop only=[$only] rc=$rc"; grep -E "^VIOLATION|^INCONCLUSIVE|^  harness|tier=" "$d/out.log" | cut -c1-260
git -C /repo worktree remove --force "$d/w"; rm -rf "$d"
