#!/usr/bin/env python3
"""Regenerate /verif/MANIFEST.json from the lemma registry (lemmas.py) and PROPERTY_META."""
import json
import os
import sys

VERIF = os.path.dirname(os.path.dirname(os.path.abspath(__file__)))
sys.path.insert(0, VERIF)
import lemmas  # noqa: E402

ALL = ["C%02d" % i for i in range(1, 21)]
BASELINE = ("cd /repo && cargo nextest run --workspace --no-fail-fast --tool-config-file pb:/w/lib/nextest.toml --profile pb "
            "--test-threads 8 --offline || (cd /repo && cargo test --workspace --no-fail-fast --offline)")

NA_DEFAULT = {
    "C20": "needs real UDP sockets, OS non-blocking I/O and three crates in one run; Kani/CBMC has no model of sockets and stubbing "
           "recv_from/send_to would remove exactly what the property is about (DESIGN.md section 4, C20)",
}


def main():
    checks = []
    na = []
    for p in ALL:
        q = lemmas.lemmas_for(p, "quick")
        t = lemmas.lemmas_for(p, "thorough")
        meta = lemmas.PROPERTY_META.get(p, {})
        if not q or p in NA_DEFAULT:
            na.append({"property_id": p, "reason": NA_DEFAULT.get(p, meta.get("na_reason", "no solver-based check has been built for this property yet (work in progress)"))})
            continue
        checks.append({
            "property_id": p,
            "quick_cmd": "./check %s --tier quick" % p,
            "thorough_cmd": "./check %s --tier thorough" % p,
            "evidence_file": "/verif/evidence/%s.json" % p,
            "replay_cmd_template": "./check %s --replay {path}" % p,
            "engine": "kani-cbmc",
            "level_claimed": {
                "category": "model_checking",
                "text": meta.get("level_text", "bounded model checking (Kani 0.68 / CBMC 6.11 / cadical) of the real functions: every obligation is a one-step lemma "
                                 "over symbolic inputs and symbolic pre-states, decided for all values within the bounds listed in the evidence file; "
                                 "composition of the lemmas into the end-to-end statement is an argument in DESIGN.md, not machine-checked"),
                "design_ref": meta.get("design_ref", "DESIGN.md section 4, %s" % p),
            },
            "level_note": meta.get("level_note", "trusted: rustc/Kani translation, CBMC, cadical; model containers and ideal-AEAD model where listed; bounds per harness in evidence"),
            "technique": meta.get("technique", "solver-based bounded model checking of the compiled Rust functions (Kani/CBMC, SAT) with %d quick / %d thorough harnesses" % (len(q), len(t))),
        })
    m = {
        "version": 1,
        "setup_cmd": "cd /verif && ./tools/setup.sh",
        "hooks": {
            "guard": "kani",
            "enable": "no hooks are committed to /repo: every check stages /repo's working tree into a scratch copy and appends `#[cfg(kani)] mod verif_kani;` "
                      "harness modules there; cfg(kani) is set by cargo-kani only",
            "baseline_off_cmd": BASELINE,
            "source_commits": [],
            "add_only": True,
        },
        "engines": [{"name": "kani-cbmc", "path": "/verif/check", "serves_properties": [c["property_id"] for c in checks],
                     "kind_free_text": "Kani 0.68 proof harnesses over the staged real sources, CBMC 6.11 + cadical; z3/cvc5 for constant arithmetic"}],
        "checks": checks,
        "not_applicable": na,
        "notes": "exit 0 held / exit 1 VIOLATION (natively replayed counterexample) / exit 2 inconclusive. known_findings.json lists recorded and fixed defects.",
    }
    with open(os.path.join(VERIF, "MANIFEST.json"), "w") as f:
        json.dump(m, f, indent=1)
    print("claimed:", [c["property_id"] for c in checks], "n/a:", [x["property_id"] for x in na])


if __name__ == "__main__":
    main()
