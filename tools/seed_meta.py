#!/usr/bin/env python3
"""write seeded/<id>/meta.json from the notes of each seed and the evaluation log (/tmp/seedeval*.log lines
`== seeded/<dir> <prop> only=[...] rc=N`)"""
import json, os, re, sys, glob
VERIF = os.path.dirname(os.path.dirname(os.path.abspath(__file__)))
results = {}
for logf in sys.argv[1:]:
    cur = None
    for ln in open(logf, errors="replace"):
        m = re.match(r"== (seeded/\S+) (C\d+) only=\[(.*?)\] rc=(\d+)", ln)
        if m:
            cur = m.group(1)
            results.setdefault(cur, []).append({"property": m.group(2), "harnesses": m.group(3), "exit": int(m.group(4)), "lines": []})
        elif cur and (ln.startswith("VIOLATION") or ln.startswith("  harness") or ln.startswith("INCONCLUSIVE") or "tier=" in ln):
            results[cur][-1]["lines"].append(ln.strip()[:300])
for d in sorted(glob.glob(os.path.join(VERIF, "seeded", "*"))):
    if not os.path.isdir(d):
        continue
    rel = os.path.relpath(d, VERIF)
    prop = os.path.basename(d).split("_")[0]
    notes = open(os.path.join(d, "notes.md"), errors="replace").read() if os.path.exists(os.path.join(d, "notes.md")) else ""
    runs = results.get(rel, [])
    detected = any(r["exit"] == 1 for r in runs)
    meta = {
        "breaks_property": prop,
        "written_by": "independent sub-agent given only the property text and a scratch worktree",
        "needs_to_manifest": " ".join(notes.split())[:900],
        "confirmed": "tools/confirm_seed.sh: demo passes on the pristine tree, fails with patch.diff applied, the existing test suite stays green with the patch",
        "check_runs": runs,
        "detected_by_checks": detected,
        "how_run": "tools/eval_seed.sh %s %s <harnesses>  (patch applied to a scratch worktree of /repo HEAD, VERIF_REPO pointed at it)" % (rel, prop),
    }
    json.dump(meta, open(os.path.join(d, "meta.json"), "w"), indent=1)
    print(rel, "detected" if detected else ("not run" if not runs else "NOT detected (exit %s)" % [r["exit"] for r in runs]))
