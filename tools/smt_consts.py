#!/usr/bin/env python3
"""Constant-arithmetic side conditions of C13 / C19, discharged by z3 AND cvc5 (results must agree).

The size constants are re-extracted from /repo's current sources on every run; each obligation is an
SMT-LIB2 query over symbolic field widths / lengths whose negation must be unsat."""
import os
import re
import subprocess
import sys
import time

REPO = os.environ.get("VERIF_REPO", "/repo")


class SmtError(Exception):
    pass


def _const(path, pattern, what):
    src = open(os.path.join(REPO, path), encoding="utf-8").read()
    m = re.search(pattern, src)
    if not m:
        raise SmtError("cannot extract %s from %s" % (what, path))
    return int(m.group(1).replace("_", ""))


def constants():
    c = {}
    c["SLICE_SIZE"] = _const("renet/src/packet.rs", r"pub const SLICE_SIZE: usize = ([\d_]+);", "SLICE_SIZE")
    c["MAX_PACKET"] = _const("renetcode/src/lib.rs", r"pub const NETCODE_MAX_PACKET_BYTES: usize = ([\d_]+);", "NETCODE_MAX_PACKET_BYTES")
    c["MAX_PAYLOAD"] = _const("renetcode/src/lib.rs", r"pub const NETCODE_MAX_PAYLOAD_BYTES: usize = ([\d_]+);", "NETCODE_MAX_PAYLOAD_BYTES")
    c["MAC"] = _const("renetcode/src/lib.rs", r"const NETCODE_MAC_BYTES: usize = ([\d_]+);", "NETCODE_MAC_BYTES")
    c["CHALLENGE"] = _const("renetcode/src/lib.rs", r"const NETCODE_CHALLENGE_TOKEN_BYTES: usize = ([\d_]+);", "NETCODE_CHALLENGE_TOKEN_BYTES")
    c["PRIVATE"] = _const("renetcode/src/lib.rs", r"const NETCODE_CONNECT_TOKEN_PRIVATE_BYTES: usize = ([\d_]+);", "NETCODE_CONNECT_TOKEN_PRIVATE_BYTES")
    c["XNONCE"] = _const("renetcode/src/lib.rs", r"const NETCODE_CONNECT_TOKEN_XNONCE_BYTES: usize = ([\d_]+);", "NETCODE_CONNECT_TOKEN_XNONCE_BYTES")
    c["SER_BUF"] = _const("renet/src/remote_connection.rs", r"let mut buffer = \[0u8; ([\d_]+)\];", "serialization buffer of RenetClient::get_packets_to_send")
    c["ACK_CAP"] = _const("renet/src/remote_connection.rs", r"if self\.pending_acks\.len\(\) > ([\d_]+)", "pending ack range cap")
    return c


def varint(v):
    return "(ite (<= %s 63) 1 (ite (<= %s 16383) 2 (ite (<= %s 1073741823) 4 8)))" % (v, v, v)


def obligations(c):
    S, P, K = c["SLICE_SIZE"], c["MAX_PAYLOAD"], c["MAX_PACKET"]
    decl = "(declare-const seq Int)(declare-const id Int)(declare-const len Int)(declare-const body Int)(declare-const idx Int)(declare-const n Int)(declare-const sl Int)\n" \
           "(assert (and (>= seq 0) (< seq 4611686018427387904) (>= id 0) (< id 4611686018427387904)))\n"
    obs = []
    # C13 (a) a small packet whose messages were packed under the threshold rule (sum of serialized sizes <= SLICE_SIZE)
    obs.append(("small_packet_packed", decl + "(assert (and (>= body 0) (<= body %d)))\n(assert (not (<= (+ 1 %s 1 2 body) %d)))" % (S, varint("seq"), P),
                "1 + varint(seq) + 1 + 2 + body <= NETCODE_MAX_PAYLOAD_BYTES for every body <= SLICE_SIZE"))
    # (b) a single message alone in its packet (its serialized size may exceed the threshold)
    obs.append(("small_packet_single", decl + "(assert (and (>= len 0) (<= len %d)))\n(assert (not (<= (+ 1 %s 1 2 %s %s len) %d)))" % (S, varint("seq"), varint("id"), varint("len"), P),
                "1 + varint(seq) + 1 + 2 + varint(id) + varint(len) + len <= NETCODE_MAX_PAYLOAD_BYTES for every len <= SLICE_SIZE"))
    # (c) slice packet
    obs.append(("slice_packet", decl + "(assert (and (>= len 1) (<= len %d) (>= idx 0) (< idx 4611686018427387904) (>= n 1) (<= n 1000000)))\n"
                "(assert (not (<= (+ 1 %s 1 %s %s %s %s len) %d)))" % (S, varint("seq"), varint("id"), varint("idx"), varint("n"), varint("len"), P),
                "slice packet header + payload <= NETCODE_MAX_PAYLOAD_BYTES for every payload <= SLICE_SIZE"))
    # (d) ack packet with at most ACK_CAP ranges (worst case 8-byte varints everywhere)
    obs.append(("ack_packet", "(declare-const r Int)(assert (and (>= r 1) (<= r %d)))\n(assert (not (and (<= (+ 1 8 8 8 8 (* (- r 1) 16)) %d) (<= (+ 1 8 8 8 8 (* (- r 1) 16)) %d))))" % (c["ACK_CAP"], P, c["SER_BUF"]),
                "an ack packet with <= %d ranges fits NETCODE_MAX_PAYLOAD_BYTES and the serialization buffer" % c["ACK_CAP"]))
    # (e) the serialization buffer holds every renet packet, the netcode datagram holds every payload
    obs.append(("buffers", "(assert (not (and (<= %d %d) (<= (+ %d 1 8 %d) %d))))" % (P, c["SER_BUF"], P, c["MAC"], K),
                "NETCODE_MAX_PAYLOAD_BYTES <= serialization buffer and payload + 1 + 8 + MAC <= NETCODE_MAX_PACKET_BYTES"))
    # C19: replies are strictly smaller than the datagram that triggered them
    req_min = 1 + 13 + 8 + 8 + c["XNONCE"] + c["PRIVATE"]
    resp_min = 1 + 0 + 8 + c["CHALLENGE"] + c["MAC"]
    obs.append(("no_amplification", "(declare-const sl2 Int)(assert (and (>= sl2 0) (<= sl2 8)))\n"
                "(assert (not (and (< (+ 1 sl2 8 %d %d) %d) (< (+ 1 sl2 %d) %d) (< (+ 1 sl2 8 %d) %d))))" % (c["CHALLENGE"], c["MAC"], req_min, c["MAC"], req_min, c["MAC"], resp_min),
                "challenge (<= %d B) and denied replies are smaller than the smallest request (%d B); the connect keep-alive (<= %d B) is smaller than the smallest response (%d B)"
                % (1 + 8 + 8 + c["CHALLENGE"] + c["MAC"], req_min, 1 + 8 + 8 + c["MAC"], resp_min)))
    return obs


def run_solver(cmd, query):
    t0 = time.time()
    p = subprocess.run(cmd, input="(set-logic ALL)\n" + query + "\n(check-sat)\n", capture_output=True, text=True, timeout=120)
    out = (p.stdout + p.stderr).strip()
    if "(error" in out:
        return "error", out, time.time() - t0
    return out.split()[0] if out else "empty", out, time.time() - t0


def discharge():
    """-> list of dict(name, claim, verdict, z3, cvc5, secs)"""
    c = constants()
    res = []
    for name, q, claim in obligations(c):
        z, zo, zt = run_solver(["z3", "-in"], q)
        v, vo, vt = run_solver(["cvc5", "--lang", "smt2"], q)
        verdict = "holds" if z == "unsat" and v == "unsat" else ("violated" if z == "sat" and v == "sat" else "inconclusive")
        res.append({"name": name, "claim": claim, "verdict": verdict, "z3": z, "cvc5": v, "secs": round(zt + vt, 3), "constants": c})
    return res


if __name__ == "__main__":
    try:
        for r in discharge():
            print(r["name"], r["verdict"], r["z3"], r["cvc5"], r["claim"])
    except SmtError as e:
        print("SMT-ERROR", e)
        sys.exit(2)
